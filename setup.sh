#!/bin/bash
# Offline setup: make hypothesis (+atheris, optional) importable for /venv/bin/python.
# Installs into /verif/.deps (ignored by git) only when the import fails.
set -u
cd "$(dirname "$0")"
PY=/venv/bin/python
W=/opt/veriftools/wheels
need=""
PYTHONPATH=.deps $PY -c "import hypothesis" 2>/dev/null || need="$need hypothesis"
PYTHONPATH=.deps $PY -c "import atheris" 2>/dev/null || need="$need atheris"
if [ -n "$need" ]; then
  for pkg in $need; do
    PIP_NO_INDEX=1 $PY -m pip install -q --no-index --find-links "$W" --target .deps $pkg 2>&1 | tail -2 || true
  done
fi
PYTHONPATH=.deps $PY -c "import hypothesis; print('hypothesis', hypothesis.__version__)" || exit 1
PYTHONPATH=.deps $PY -c "import atheris; print('atheris ok')" 2>/dev/null || echo "atheris unavailable (only the optional fuzz tiers need it)"
exit 0
