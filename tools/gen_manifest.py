#!/venv/bin/python
"""Regenerate MANIFEST.json from the property modules present in vf/props."""
import importlib, json, os, sys
ROOT = os.path.dirname(os.path.dirname(os.path.abspath(__file__)))
sys.path.insert(0, ROOT)
props = [json.loads(l) for l in open(os.path.join(ROOT, "properties.jsonl"))]
checks, na = [], []
for p in props:
    pid = p["id"]
    path = os.path.join(ROOT, "vf", "props", pid.lower() + ".py")
    if not os.path.exists(path):
        na.append({"property_id": pid, "reason": "check not built yet in this round (work in progress; planned in DESIGN.md section 3)"})
        continue
    mod = importlib.import_module("vf.props." + pid.lower())
    checks.append({
        "property_id": pid,
        "quick_cmd": f"./check {pid} quick",
        "thorough_cmd": f"./check {pid} thorough",
        "evidence_file": f"/verif/evidence/{pid}.json",
        "replay_cmd_template": f"./check {pid} --replay {{path}}",
        "engine": "vf",
        "level_claimed": {"category": mod.LEVEL, "text": mod.LEVEL_TEXT,
                          "design_ref": f"DESIGN.md section 3, {pid}"},
        "level_note": "; ".join(mod.ASSUMPTIONS),
        "technique": mod.TECHNIQUE,
    })
man = {
    "version": 1,
    "setup_cmd": "./setup.sh",
    "hooks": {"guard": "GSCRIB_VERIF", "enable": "no source hooks are needed: every observation uses public API or replaces third-party classes (serial.Serial, socket.socket, selectors.DefaultSelector) from the harness; ./check exports GSCRIB_VERIF=1 for uniformity",
              "baseline_off_cmd": "cd /repo && /venv/bin/python -m pytest -ra -q -p no:cacheprovider --timeout=900 --continue-on-collection-errors",
              "source_commits": [], "add_only": True},
    "engines": [{"name": "vf", "path": "/verif/vf", "serves_properties": [c["property_id"] for c in checks],
                 "kind_free_text": "Hypothesis-driven property-based testing (generated inputs and call histories against independent oracles: block lexer, modal interpreter, reference models), bounded-exhaustive enumeration of small finite sub-domains, atheris coverage-guided fuzzing for byte-level targets, scripted device/firmware simulators for fault sequences; sharded over up to 16 processes"}],
    "checks": checks,
    "not_applicable": na,
    "notes": "Every check: exit 0 = held on everything explored (KNOWN-FINDING lines allowed), exit 1 + 'VIOLATION property=<id> replay=<path>' = violation, exit 2 = harness error. Seeds derive from VERIF_SEED. known_findings.json lists repaired (fixed:) and unrepaired (known:) genuine defects.",
}
json.dump(man, open(os.path.join(ROOT, "MANIFEST.json"), "w"), indent=1)
print("checks:", [c["property_id"] for c in checks], "n/a:", len(na))
