"""Debug helper: run one shard of a property in-process with a watchdog that
dumps the Python stack if it takes too long.
usage: tools/dbg_shard.py C01 quick <shard> <nshards> [timeout]"""
import sys, faulthandler, time, importlib
sys.path.insert(0, '/verif')
pid, tier, shard, n = sys.argv[1], sys.argv[2], int(sys.argv[3]), int(sys.argv[4])
faulthandler.dump_traceback_later(int(sys.argv[5]) if len(sys.argv) > 5 else 60, exit=True)
from vf.runner import Ctx
mod = importlib.import_module("vf.props." + pid.lower())
ctx = Ctx(pid, tier, 1, shard, n)
t = time.time()
mod.run_shard(ctx)
print('done', round(time.time() - t, 1), ctx.evaluations, len(ctx.violations))
for v in ctx.violations[:2]:
    print(v["message"][:500])
