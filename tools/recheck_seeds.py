#!/venv/bin/python
"""Re-run the registered checks against every kept seeded change.

usage: tools/recheck_seeds.py [--only C15,C16-r2-1] [--jobs 3] [--tier quick]
for each /verif/seeded/<name>/ : fresh scratch archive of /repo HEAD (outside
/repo and /verif), git apply patch.diff, run ./check <ID> <tier> with
VERIF_REPO=<scratch> for every check named in meta.json["checks"], remove the
scratch tree.  Writes seeded/recheck.json ({name: {check: caught}}) and prints
the seeds that no listed check catches.  Nothing is applied to /repo.
"""
import json, os, shutil, subprocess, sys, tempfile, time
from concurrent.futures import ThreadPoolExecutor

ROOT = os.path.dirname(os.path.dirname(os.path.abspath(__file__)))
SEEDED = os.path.join(ROOT, "seeded")


def one(name, tier):
    d = os.path.join(SEEDED, name)
    meta = json.load(open(os.path.join(d, "meta.json")))
    checks = list(meta.get("checks", {})) or [meta["property"]]
    tmp = tempfile.mkdtemp(prefix="gscrib-reseed-")
    res = {}
    try:
        tree = os.path.join(tmp, "repo")
        os.makedirs(tree)
        p = subprocess.Popen(["git", "-C", "/repo", "archive", "HEAD"], stdout=subprocess.PIPE)
        subprocess.check_call(["tar", "-x", "-C", tree], stdin=p.stdout)
        p.wait()
        subprocess.check_call(["git", "init", "-q"], cwd=tree)
        r = subprocess.run(["git", "apply", "--whitespace=nowarn", os.path.join(d, "patch.diff")],
                           cwd=tree, capture_output=True, text=True)
        if r.returncode != 0:
            return name, {"error": "patch does not apply: " + r.stderr[-200:]}
        for cid in checks:
            env = dict(os.environ, VERIF_REPO=tree, VERIF_EVIDENCE_DIR=os.path.join(tmp, "ev"),
                       VERIF_REPLAY_DIR=os.path.join(tmp, "rp"))
            t0 = time.time()
            r = subprocess.run([os.path.join(ROOT, "check"), cid, tier], env=env,
                               capture_output=True, text=True, timeout=3600)
            out = r.stdout + r.stderr
            res[cid] = {"exit": r.returncode,
                        "caught": r.returncode == 1 and "VIOLATION property=" in out,
                        "wall_s": round(time.time() - t0, 1)}
    finally:
        shutil.rmtree(tmp, ignore_errors=True)
    return name, res


def main():
    tier = sys.argv[sys.argv.index("--tier") + 1] if "--tier" in sys.argv else "quick"
    jobs = int(sys.argv[sys.argv.index("--jobs") + 1]) if "--jobs" in sys.argv else 3
    only = sys.argv[sys.argv.index("--only") + 1].split(",") if "--only" in sys.argv else None
    names = sorted(n for n in os.listdir(SEEDED)
                   if os.path.exists(os.path.join(SEEDED, n, "meta.json")))
    if only:
        names = [n for n in names if n in only or n.split("-")[0] in only]
    out = {}
    with ThreadPoolExecutor(jobs) as ex:
        for name, res in ex.map(lambda n: one(n, tier), names):
            out[name] = res
            print(name, json.dumps(res), flush=True)
    path = os.path.join(SEEDED, "recheck.json")
    prev = json.load(open(path)) if os.path.exists(path) and only else {}
    prev.update(out)
    json.dump(prev, open(path, "w"), indent=1, sort_keys=True)
    missed = [n for n, r in out.items()
              if "error" in r or not any(c.get("caught") for c in r.values())]
    print("not caught by any listed check:", missed)
    return 0


if __name__ == "__main__":
    sys.exit(main())
