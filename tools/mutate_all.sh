#!/bin/bash
# Re-run every hand-written mutant of every property (sensitivity table).
cd "$(dirname "$0")/.."
for id in C01 C02 C03 C04 C05 C06 C07 C08 C09 C10 C11 C12 C13 C14 C15 C16 C17 C18 C19 C20; do
  echo "== $id"; tools/mutate.py $id 2>&1 | tail -3 | cut -c1-300
done
