#!/venv/bin/python
"""Confirm an independently written breaking change and run the checks on it.

usage: tools/verify_seed.py <ID> <k> [--tier quick] [--also C10,C12] [--round 2]
reads  /tmp/seed_<ID>/patch<k>.diff, demo<k>.py, notes<k>.md
does   1. fresh scratch copy of /repo's HEAD tree (outside /repo and /verif)
       2. demo on the clean copy must PASS (exit 0)
       3. apply the patch; package must import; repo test-suite must give the
          baseline result (411 passed, only test_write_to_invalid_path failing)
       4. demo on the patched copy must FAIL (exit != 0)
       5. ./check <ID> <tier> with VERIF_REPO=<patched copy>  -> caught?
writes /verif/seeded/<ID>-<k>/{patch.diff,demo.py,notes.md,meta.json}
The scratch copy is removed afterwards.
"""
import json, os, shutil, subprocess, sys, tempfile, time

ROOT = os.path.dirname(os.path.dirname(os.path.abspath(__file__)))


def sh(cmd, **kw):
    return subprocess.run(cmd, capture_output=True, text=True, **kw)


def main():
    pid, k = sys.argv[1].upper(), sys.argv[2]
    tier = sys.argv[sys.argv.index("--tier") + 1] if "--tier" in sys.argv else "quick"
    also = sys.argv[sys.argv.index("--also") + 1].split(",") if "--also" in sys.argv else []
    rnd = sys.argv[sys.argv.index("--round") + 1] if "--round" in sys.argv else "1"
    src = f"/tmp/seed_{pid}" if rnd == "1" else f"/tmp/seed{rnd}_{pid}"
    patch = os.path.join(src, f"patch{k}.diff")
    demo = os.path.join(src, f"demo{k}.py")
    notes = os.path.join(src, f"notes{k}.md")
    meta = {"property": pid, "variant": k, "tier": tier, "round": int(rnd)}
    tmp = tempfile.mkdtemp(prefix="gscrib-seed-")
    try:
        tree = os.path.join(tmp, "repo")
        os.makedirs(tree)
        p = subprocess.Popen(["git", "-C", "/repo", "archive", "HEAD"], stdout=subprocess.PIPE)
        subprocess.check_call(["tar", "-x", "-C", tree], stdin=p.stdout)
        p.wait()
        subprocess.check_call(["git", "init", "-q"], cwd=tree)
        env = dict(os.environ, PYTHONPATH=tree)
        r = sh(["/venv/bin/python", demo], env=env, cwd=tmp, timeout=300)
        meta["demo_clean_exit"] = r.returncode
        meta["demo_clean_tail"] = (r.stdout + r.stderr).strip()[-200:]
        r = sh(["git", "apply", "--whitespace=nowarn", patch], cwd=tree)
        if r.returncode != 0:
            meta["error"] = "patch does not apply: " + r.stderr[-300:]
            print(json.dumps(meta, indent=1)); return 2
        r = sh(["/venv/bin/python", "-c", "import gscrib"], env=env, cwd=tmp)
        meta["imports"] = r.returncode == 0
        t0 = time.time()
        r = sh(["/venv/bin/python", "-m", "pytest", "-q", "-p", "no:cacheprovider",
                "--timeout=900", "tests"], cwd=tree, env=env, timeout=1200)
        tail = (r.stdout.strip().splitlines() or [""])[-1]
        meta["repo_tests"] = tail
        failed = [l for l in r.stdout.splitlines() if l.startswith("FAILED")]
        meta["repo_tests_baseline"] = ("411 passed" in tail and len(failed) == 1
                                       and "test_write_to_invalid_path" in failed[0])
        r = sh(["/venv/bin/python", demo], env=env, cwd=tmp, timeout=300)
        meta["demo_patched_exit"] = r.returncode
        meta["demo_patched_tail"] = (r.stdout + r.stderr).strip()[-300:]
        meta["confirmed"] = bool(meta["demo_clean_exit"] == 0 and meta["demo_patched_exit"] != 0
                                 and meta["imports"] and meta["repo_tests_baseline"])
        meta["checks"] = {}
        for cid in [pid] + also:
            cenv = dict(os.environ, VERIF_REPO=tree, VERIF_EVIDENCE_DIR=os.path.join(tmp, "ev"),
                        VERIF_REPLAY_DIR=os.path.join(tmp, "rp"))
            t0 = time.time()
            r = sh([os.path.join(ROOT, "check"), cid, tier], env=cenv, timeout=3600)
            out = r.stdout + r.stderr
            msg = [l for l in out.splitlines() if l.startswith("violation:")]
            meta["checks"][cid] = {"exit": r.returncode,
                                   "caught": r.returncode == 1 and "VIOLATION property=" in out,
                                   "wall_s": round(time.time() - t0, 1),
                                   "first_message": msg[0][:400] if msg else None}
        dst = os.path.join(ROOT, "seeded", f"{pid}-{k}" if rnd == "1" else f"{pid}-r{rnd}-{k}")
        os.makedirs(dst, exist_ok=True)
        shutil.copy(patch, os.path.join(dst, "patch.diff"))
        shutil.copy(demo, os.path.join(dst, "demo.py"))
        if os.path.exists(notes):
            shutil.copy(notes, os.path.join(dst, "notes.md"))
            meta["needs_to_manifest"] = open(notes).read()[:1500]
        meta["what_was_run"] = ("tools/verify_seed.py: clean archive of /repo HEAD in a scratch dir; demo on "
                                "clean tree; git apply; import; repo pytest suite; demo on patched tree; "
                                "./check with VERIF_REPO=<patched tree>")
        json.dump(meta, open(os.path.join(dst, "meta.json"), "w"), indent=1)
        print(json.dumps({k_: v for k_, v in meta.items() if k_ != "needs_to_manifest"}, indent=1))
    finally:
        shutil.rmtree(tmp, ignore_errors=True)


if __name__ == "__main__":
    sys.exit(main())
