#!/venv/bin/python
"""Sensitivity runs: apply each hand-written mutant of mutants/<id>.json to a
scratch copy of /repo (outside /repo and /verif), run the property's check
against it with VERIF_REPO, optionally run the repo's own test-suite on the
mutant, and record caught / missed in mutants/results/<id>.json.

usage: tools/mutate.py C17 [--tests] [--tier quick] [--only name]
A mutant entry: {"name":..., "file": "gscrib/...", "old": "...", "new": "..."}
(exact, unique string replacement).  Scratch copies are removed afterwards.
"""
import json, os, shutil, subprocess, sys, tempfile, time
from concurrent.futures import ThreadPoolExecutor

ROOT = os.path.dirname(os.path.dirname(os.path.abspath(__file__)))


def run_one(pid, m, tier, tests):
    tmp = tempfile.mkdtemp(prefix="gscrib-mut-")
    try:
        dst = os.path.join(tmp, "repo")
        shutil.copytree("/repo", dst, ignore=shutil.ignore_patterns(
            ".git", "__pycache__", "docs", "*.pyc"))
        edits = m.get("edits") or [m]
        for e in edits:
            path = os.path.join(dst, e["file"])
            src = open(path).read()
            if src.count(e["old"]) != 1:
                return {"name": m["name"], "error":
                        f"pattern occurs {src.count(e['old'])} times in {e['file']}"}
            open(path, "w").write(src.replace(e["old"], e["new"]))
        evd = os.path.join(tmp, "ev")
        env = dict(os.environ, VERIF_REPO=dst, VERIF_EVIDENCE_DIR=evd,
                   VERIF_REPLAY_DIR=os.path.join(tmp, "rp"))
        t0 = time.time()
        p = subprocess.run([os.path.join(ROOT, "check"), pid, tier], env=env,
                           capture_output=True, text=True)
        out = p.stdout + p.stderr
        res = {"name": m["name"], "exit": p.returncode,
               "equivalent": m.get("equivalent"),
               "out_of_reach": m.get("out_of_reach"),
               "caught": p.returncode == 1 and "VIOLATION property=" in out,
               "wall_s": round(time.time() - t0, 1)}
        msg = [l for l in out.splitlines() if l.startswith("violation:")]
        if msg:
            res["first_message"] = msg[0][:300]
        if p.returncode == 2:
            res["harness_error"] = out[-1500:]
        if tests:
            tp = subprocess.run(
                ["/venv/bin/python", "-m", "pytest", "-q", "-x", "-p",
                 "no:cacheprovider", "--timeout=900", "tests"],
                cwd=dst, capture_output=True, text=True,
                env=dict(os.environ, PYTHONPATH=dst))
            tail = tp.stdout.strip().splitlines()[-1:] or [""]
            res["repo_tests"] = tail[0]
            res["repo_tests_pass"] = tp.returncode == 0 or (
                "2 failed" in tail[0] and "test_write_to_invalid_path" in tp.stdout)
        return res
    finally:
        shutil.rmtree(tmp, ignore_errors=True)


def main():
    args = sys.argv[1:]
    pid = args[0].upper()
    tests = "--tests" in args
    tier = args[args.index("--tier") + 1] if "--tier" in args else "quick"
    only = args[args.index("--only") + 1] if "--only" in args else None
    muts = json.load(open(os.path.join(ROOT, "mutants", pid.lower() + ".json")))
    if only:
        muts = [m for m in muts if m["name"] == only]
    par = 2 if not tests else 2
    with ThreadPoolExecutor(par) as ex:
        results = list(ex.map(lambda m: run_one(pid, m, tier, tests), muts))
    for r in results:
        print(json.dumps(r))
    if not only:
        os.makedirs(os.path.join(ROOT, "mutants", "results"), exist_ok=True)
        json.dump({"property": pid, "tier": tier, "results": results},
                  open(os.path.join(ROOT, "mutants", "results", pid + ".json"), "w"),
                  indent=1)
    missed = [r["name"] for r in results if not r.get("caught") and not r.get("equivalent")
              and not r.get("out_of_reach")]
    oor = [r["name"] for r in results if not r.get("caught") and r.get("out_of_reach")]
    if oor:
        print("documented as out of reach:", oor)
    false_alarm = [r["name"] for r in results if r.get("caught") and r.get("equivalent")]
    if false_alarm:
        print("ALARM ON PROPERTY-PRESERVING MUTANT:", false_alarm)
    print("missed:", missed)


if __name__ == "__main__":
    main()
