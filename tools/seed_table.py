#!/venv/bin/python
"""Print a markdown table of the seeded (independently written) changes from seeded/*/meta.json."""
import glob, json, os
ROOT = os.path.dirname(os.path.dirname(os.path.abspath(__file__)))
print("| Seed | Confirmed | What it needs (from the author's notes) | Checks run -> caught |")
print("|------|-----------|------------------------------------------|----------------------|")
for f in sorted(glob.glob(os.path.join(ROOT, "seeded", "*", "meta.json"))):
    m = json.load(open(f))
    name = os.path.basename(os.path.dirname(f))
    notes = (m.get("needs_to_manifest") or "").replace("\n", " ")
    short = m.get("summary") or notes[:160]
    checks = ", ".join(f"{c}: {'caught' if v['caught'] else 'MISSED'}" for c, v in m.get("checks", {}).items()
                       if "caught" in v)
    hist = m.get("history")
    if hist:
        checks += f" ({hist})"
    print(f"| {name} | {'yes' if m.get('confirmed') else 'NO'} | {short} | {checks} |")
