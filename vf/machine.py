"""Independent modal G-code interpreter used as the oracle's machine.

Semantics (RS274/Marlin common core, as far as the listed properties need):
  G0/G1   absolute: assign mentioned axes; relative: add (unknown stays unknown)
  G90/G91 distance mode          G92 assign mentioned axes
  G28     mentioned axes (all if none) become unknown
  G38.x   mentioned axes become unknown
  M3/M4 start tool (S modal), M5 stop; M7/M8 coolant on, M9 off
  T<n> M6 tool change; F, S modal; G20/G21; G17-19; G93-95; M82/M83
  M104/M109, M140/M190, M141/M191 target temperatures (S or R)
Exact rational arithmetic on the decimal words.
"""

from fractions import Fraction

AXES = ("X", "Y", "Z")
HALT_CODES = {"M0", "M1", "M2", "M30", "M60", "M109", "M190", "M191", "M400"}


def norm_code(word):
    """'G01' -> 'G1', 'M03' -> 'M3', 'G38.2' -> 'G38.2'."""
    t = word.text
    if "." in t:
        a, b = t.split(".")
        return f"{word.letter}{int(a)}.{b}"
    return f"{word.letter}{int(t)}"


class Machine:
    def __init__(self, labels=None):
        # labels: emitted label -> canonical axis
        self.labels = labels or {a: a for a in AXES}
        self.pos = {a: None for a in AXES}
        self.rel_steps = {a: 0 for a in AXES}   # relative increments since last absolute assignment
        self.relative = False
        self.tool_on = False
        self.tool_code = None
        self.coolant = None        # None | "M7" | "M8"
        self.S = None
        self.F = None
        self.T = None
        self.units = None
        self.plane = None
        self.feed_mode = None
        self.extrusion = None
        self.temps = {"hotend": None, "bed": None, "chamber": None}
        self.last = {}             # last value of every non-axis letter on motion-type lines
        self.events = []           # (code, tool_on_before, coolant_on_before)
        self.moves = []            # (code, {axis: Fraction target in machine coords or None})
        self.lines = 0

    def copy_pos(self):
        return dict(self.pos)

    def execute(self, words):
        self.lines += 1
        codes = [w for w in words if w.letter in ("G", "M")]
        params = [w for w in words if w.letter not in ("G", "M")]
        pdict = {}
        for w in params:
            pdict.setdefault(w.letter, w)   # first occurrence wins
        axis_words = {}
        for w in params:
            if w.letter in self.labels:
                axis_words.setdefault(self.labels[w.letter], w.value)
        codes_n = [norm_code(c) for c in codes]

        # modal words that act on their own
        if "F" in pdict:
            self.F = pdict["F"].value
        # S is a temperature on heater codes, a fan speed on M106 and a time on
        # the plain halt codes: not a spindle speed there
        handled_S_as_temp = any(c in ("M104", "M109", "M140", "M190", "M141",
                                      "M191", "M106", "M107", "M0", "M1", "M2",
                                      "M30", "M60", "M400") for c in codes_n)
        if "S" in pdict and not handled_S_as_temp:
            self.S = pdict["S"].value

        for c in codes_n:
            if c.startswith("M"):
                self.events.append((c, self.tool_on, self.coolant is not None))
            if c in ("G0", "G1"):
                tgt = {}
                for a, v in axis_words.items():
                    if self.relative:
                        if self.pos[a] is not None:
                            self.pos[a] = self.pos[a] + v
                        self.rel_steps[a] += 1
                    else:
                        self.pos[a] = v
                        self.rel_steps[a] = 0
                    tgt[a] = self.pos[a]
                self.moves.append((c, tgt, dict(axis_words), self.relative))
                self._track(params)
            elif c == "G90":
                self.relative = False
            elif c == "G91":
                self.relative = True
            elif c == "G92":
                for a, v in axis_words.items():
                    self.pos[a] = v
                    self.rel_steps[a] = 0
                self._track(params)
            elif c == "G28":
                for a in (axis_words or AXES):
                    self.pos[a] = None
                    self.rel_steps[a] = 0
                self._track(params)
            elif c.startswith("G38."):
                self.moves.append((c, None, dict(axis_words), self.relative))
                for a in axis_words:
                    self.pos[a] = None
                    self.rel_steps[a] = 0
                self._track(params)
            elif c in ("M3", "M4"):
                self.tool_on = True
                self.tool_code = c
            elif c == "M5":
                self.tool_on = False
            elif c in ("M7", "M8"):
                self.coolant = c
            elif c == "M9":
                self.coolant = None
            elif c == "M6":
                if "T" in pdict:
                    self.T = pdict["T"].value
            elif c in ("G20", "G21"):
                self.units = c
            elif c in ("G17", "G18", "G19"):
                self.plane = c
            elif c in ("G93", "G94", "G95"):
                self.feed_mode = c
            elif c in ("M82", "M83"):
                self.extrusion = c
            elif c in ("M104", "M109", "M140", "M190", "M141", "M191"):
                key = {"M104": "hotend", "M109": "hotend", "M140": "bed",
                       "M190": "bed", "M141": "chamber", "M191": "chamber"}[c]
                w = pdict.get("S") or pdict.get("R")
                if w is not None:
                    self.temps[key] = w.value

    def _track(self, params):
        for w in params:
            if w.letter not in self.labels:
                self.last[w.letter] = w.value
