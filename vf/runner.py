"""Shared runner: tiers, seeds, sharding, evidence, replay files, known findings.

A property module (vf/props/cNN.py) exposes

    ID, LEVEL, RULE, ASSUMPTIONS
    SHARDS = {"quick": n, "thorough": n}
    run_shard(ctx)          # generate cases, call ctx.case(...) / raise or report
    replay(case) -> None    # run the oracle on ONE case without hypothesis;
                            # raises Violation when the property is broken

Exit codes of a check: 0 held, 1 violation (VIOLATION line printed), 2 harness
error.  Nothing here reads the wall clock for a correctness decision; the only
use of time is the shrink budget and wall_s in the evidence.
"""

import hashlib
import importlib
import json
import math
import multiprocessing
import os
import sys
import time
import traceback

ROOT = os.path.dirname(os.path.dirname(os.path.abspath(__file__)))


def setup_paths():
    deps = os.path.join(ROOT, ".deps")
    if os.path.isdir(deps) and deps not in sys.path:
        sys.path.append(deps)
    alt = os.environ.get("VERIF_REPO")
    if alt:
        sys.path.insert(0, alt)
    elif "/repo" not in sys.path:
        # the editable install already points at /repo; make it explicit so a
        # fresh restore without the .pth file still imports the working tree
        sys.path.insert(0, "/repo")


setup_paths()
import warnings as _w
_w.filterwarnings("ignore", category=RuntimeWarning)


class Violation(Exception):
    """The oracle decided that the property is broken on this case."""


class HarnessError(Exception):
    """The harness itself is inconsistent (never reported as a violation)."""


# ---------------------------------------------------------------------------
# JSON for cases (floats incl. nan/inf, bytes, numpy scalars, tuples)
# ---------------------------------------------------------------------------

def to_jsonable(x):
    import numpy as np
    if isinstance(x, dict):
        return {str(k): to_jsonable(v) for k, v in x.items()}
    if isinstance(x, (list, tuple)):
        return [to_jsonable(v) for v in x]
    if isinstance(x, (bytes, bytearray)):
        return {"__bytes__": bytes(x).hex()}
    if isinstance(x, np.generic):
        return {"__np__": x.dtype.name, "v": repr(x.item())}
    if isinstance(x, float):
        if math.isnan(x):
            return {"__f__": "nan"}
        if math.isinf(x):
            return {"__f__": "inf" if x > 0 else "-inf"}
        return x
    if isinstance(x, (str, int, bool)) or x is None:
        return x
    return repr(x)


def from_jsonable(x):
    import numpy as np
    if isinstance(x, dict):
        if "__bytes__" in x and len(x) == 1:
            return bytes.fromhex(x["__bytes__"])
        if "__f__" in x and len(x) == 1:
            return float(x["__f__"])
        if "__np__" in x:
            v = x["v"]
            if v in ("nan", "inf", "-inf"):
                v = float(v)
            else:
                v = eval(v, {"__builtins__": {}})  # repr of a python number
            return np.dtype(x["__np__"]).type(v)
        return {k: from_jsonable(v) for k, v in x.items()}
    if isinstance(x, list):
        return [from_jsonable(v) for v in x]
    return x


def case_hash(case):
    data = json.dumps(to_jsonable(case), sort_keys=True, ensure_ascii=True)
    return hashlib.sha1(data.encode()).hexdigest()


# ---------------------------------------------------------------------------
# Per-shard context
# ---------------------------------------------------------------------------

class Ctx:
    def __init__(self, prop_id, tier, seed, shard, nshards):
        self.prop_id = prop_id
        self.tier = tier
        self.base_seed = seed
        self.shard = shard
        self.nshards = nshards
        self.seed = int(hashlib.sha1(
            f"{prop_id}:{seed}:{shard}".encode()).hexdigest()[:12], 16)
        self.evaluations = 0
        self.steps = 0
        self.nontrivial = set()
        self.classes = {}
        self.samples = []
        self.violations = []     # list of {"case":..., "message":...}
        self.excluded_known = {}
        self.notes = []
        self.inconclusive = 0
        self.t0 = time.time()
        self.wall_budget = 75 if tier == "quick" else 1500
        self.case_timeout = 30 if tier == "quick" else 120

    # -- bookkeeping -------------------------------------------------------
    def case(self, case, nontrivial=False, classes=(), steps=0):
        self.evaluations += 1
        self.steps += steps
        for c in classes:
            self.classes[c] = self.classes.get(c, 0) + 1
        if nontrivial:
            h = case_hash(case)
            if h not in self.nontrivial:
                self.nontrivial.add(h)
                if len(self.nontrivial) <= 300:
                    j = to_jsonable(case)
                    size = len(json.dumps(j))
                    if size <= 3000:
                        if len(self.samples) < 2:
                            self.samples.append(j)
                            self._ssize = max(getattr(self, "_ssize", 0), size)
                        elif size > self._ssize:
                            # keep the first sample and the largest later one
                            self.samples[1] = j
                            self._ssize = size

    def count(self, cls, n=1):
        self.classes[cls] = self.classes.get(cls, 0) + n

    def excluded(self, finding_id, n=1):
        self.excluded_known[finding_id] = self.excluded_known.get(finding_id, 0) + n

    def violation(self, case, message, sub=None):
        self.violations.append({"case": to_jsonable(case), "message": message,
                                "sub": sub})

    def result(self):
        return {
            "shard": self.shard,
            "evaluations": self.evaluations,
            "steps": self.steps,
            "nontrivial": sorted(self.nontrivial),
            "classes": self.classes,
            "samples": self.samples,
            "violations": self.violations,
            "excluded_known": self.excluded_known,
            "notes": self.notes,
            "inconclusive": self.inconclusive,
        }


# ---------------------------------------------------------------------------
# Hypothesis driver: search, cooperative shrink budget, minimal case capture
# ---------------------------------------------------------------------------

def run_hypothesis(ctx, strategy, body, max_examples, sub=None,
                   shrink_budget=None):
    """Run `body(case)` over `strategy`.  `body` raises Violation to fail.

    The minimal failing case is captured from the last execution (Hypothesis
    replays the shrunk example last).  Once `shrink_budget` seconds have been
    spent after the first failure the body returns immediately, which makes
    the shrinker settle on the best case found so far.
    """
    import hypothesis
    from hypothesis import given, settings, HealthCheck, Phase

    if shrink_budget is None:
        shrink_budget = 40 if ctx.tier == "quick" else 200
    st = {"last": None, "first_fail": None, "lastfail": None, "msg": None}

    @hypothesis.seed(ctx.seed if sub is None else
                     (ctx.seed ^ (hash_str(sub) & 0xFFFFFFFF)))
    @settings(max_examples=max_examples, database=None, deadline=None,
              derandomize=False, report_multiple_bugs=False,
              suppress_health_check=list(HealthCheck),
              phases=[Phase.generate, Phase.shrink])
    @given(strategy)
    def test(case):
        if st["first_fail"] is not None and \
                time.time() - st["first_fail"] > shrink_budget:
            return
        if time.time() - ctx.t0 > ctx.wall_budget:
            ctx.inconclusive += 1      # time budget hit: inconclusive, never a violation
            return
        st["last"] = case
        try:
            with case_alarm(ctx.case_timeout):
                body(case)
        except CaseTimeout:
            ctx.inconclusive += 1
            ctx.notes.append("case exceeded %ds and was abandoned (inconclusive)"
                             % ctx.case_timeout)
            return
        except Violation as v:
            if st["first_fail"] is None:
                st["first_fail"] = time.time()
            st["lastfail"] = case
            st["msg"] = str(v)
            raise

    try:
        test()
    except Violation as v:
        case = st["lastfail"] if st["lastfail"] is not None else st["last"]
        ctx.violation(case, st["msg"] or str(v), sub)
        return False
    except hypothesis.errors.Flaky as e:
        # a failure that did not reproduce while shrinking: report what we have
        if st["lastfail"] is not None:
            ctx.violation(st["lastfail"], "FLAKY " + (st["msg"] or ""), sub)
            return False
        raise HarnessError("flaky without failing case: %r" % (e,))
    if st["lastfail"] is not None:
        # failure seen, then the budget made the final replay pass
        ctx.violation(st["lastfail"], st["msg"], sub)
        return False
    return True


class CaseTimeout(BaseException):
    pass


class case_alarm:
    """SIGALRM-based per-case time limit (main thread only): a case that runs
    longer is abandoned and counted as inconclusive."""

    def __init__(self, seconds):
        self.seconds = seconds

    def __enter__(self):
        import signal
        import threading
        self.active = (self.seconds and
                       threading.current_thread() is threading.main_thread())
        if self.active:
            def handler(signum, frame):
                raise CaseTimeout()
            self.old = signal.signal(signal.SIGALRM, handler)
            signal.alarm(int(self.seconds))

    def __exit__(self, *a):
        import signal
        if self.active:
            signal.alarm(0)
            signal.signal(signal.SIGALRM, self.old)
        return False


def hash_str(s):
    return int(hashlib.sha1(s.encode()).hexdigest()[:8], 16)


# ---------------------------------------------------------------------------
# Known findings
# ---------------------------------------------------------------------------

def load_findings(prop_id):
    path = os.path.join(ROOT, "known_findings.json")
    if not os.path.exists(path):
        return [], []
    with open(path) as f:
        data = json.load(f)
    known = [e for e in data.get("known", []) if e["property"] == prop_id]
    fixed = [e for e in data.get("fixed", []) if e["property"] == prop_id]
    return known, fixed


# ---------------------------------------------------------------------------
# Main entry
# ---------------------------------------------------------------------------

def _shard_main(args):
    prop_id, tier, seed, shard, nshards = args
    mod = importlib.import_module("vf.props." + prop_id.lower())
    ctx = Ctx(prop_id, tier, seed, shard, nshards)
    try:
        mod.run_shard(ctx)
    except Exception:  # harness error inside the shard
        r = ctx.result()
        r["error"] = traceback.format_exc()
        return r
    return ctx.result()


def _child(conn, job):
    import signal
    # code under test may have installed handlers in the parent (PrintrunWriter
    # hooks SIGTERM/SIGINT): a shard must stay killable
    signal.signal(signal.SIGTERM, signal.SIG_DFL)
    signal.signal(signal.SIGINT, signal.SIG_DFL)
    try:
        res = _shard_main(job)
    except BaseException:
        res = {"shard": job[3], "evaluations": 0, "steps": 0, "nontrivial": [],
               "classes": {}, "samples": [], "violations": [], "excluded_known": {},
               "notes": [], "inconclusive": 0, "error": traceback.format_exc()}
    try:
        conn.send(res)
        conn.close()
    finally:
        # no atexit handlers, no waiting for stray non-daemon threads
        os._exit(0)


def run_shards(jobs, tier):
    """One fresh forked process per shard (at most 16 at a time); results come
    back through pipes; a shard that overruns its hard limit is killed and
    reported as a harness error, never as a violation."""
    from multiprocessing.connection import wait as mpwait
    mpctx = multiprocessing.get_context("fork")
    hard = (75 if tier == "quick" else 1500) * 2 + 180
    pending = list(jobs)
    running = {}
    results = []
    while pending or running:
        while pending and len(running) < 16:
            job = pending.pop(0)
            parent, child = mpctx.Pipe(duplex=False)
            pr = mpctx.Process(target=_child, args=(child, job))
            pr.start()
            child.close()
            running[parent] = (pr, job, time.time())
        ready = mpwait(list(running), timeout=1.0)
        for conn in ready:
            pr, job, t0 = running.pop(conn)
            try:
                results.append(conn.recv())
            except EOFError:
                results.append({"shard": job[3], "evaluations": 0, "steps": 0,
                                "nontrivial": [], "classes": {}, "samples": [],
                                "violations": [], "excluded_known": {}, "notes": [],
                                "inconclusive": 0,
                                "error": "shard process died without a result"})
            conn.close()
            pr.join(5)
            if pr.is_alive():
                pr.kill()
        for conn, (pr, job, t0) in list(running.items()):
            if time.time() - t0 > hard:
                pr.kill()
                running.pop(conn)
                results.append({"shard": job[3], "evaluations": 0, "steps": 0,
                                "nontrivial": [], "classes": {}, "samples": [],
                                "violations": [], "excluded_known": {}, "notes": [],
                                "inconclusive": 1,
                                "error": f"shard {job[3]} exceeded the hard limit of {hard}s"})
    results.sort(key=lambda r: r["shard"])
    return results


def write_replay(prop_id, v):
    rdir = os.environ.get("VERIF_REPLAY_DIR") or os.path.join(ROOT, "replays")
    os.makedirs(rdir, exist_ok=True)
    h = case_hash(v["case"])[:12]
    path = os.path.join(rdir, f"{prop_id}-{h}.json")
    with open(path, "w") as f:
        json.dump({"property": prop_id, "case": v["case"],
                   "message": v["message"], "sub": v.get("sub")}, f, indent=1)
    return path


def main(argv=None):
    argv = list(sys.argv[1:] if argv is None else argv)
    if len(argv) < 2:
        print("usage: check <ID> <quick|thorough> | check <ID> --replay FILE")
        return 2
    prop_id = argv[0].upper()
    mod = importlib.import_module("vf.props." + prop_id.lower())

    if argv[1] == "--replay":
        with open(argv[2]) as f:
            data = json.load(f)
        case = from_jsonable(data["case"])
        try:
            mod.replay(case, sub=data.get("sub")) if _takes_sub(mod.replay) \
                else mod.replay(case)
        except Violation as v:
            print("replay: property broken:", v)
            print(f"VIOLATION property={prop_id} replay={os.path.abspath(argv[2])}")
            return 1
        print("replay: property holds on this case")
        return 0

    tier = argv[1]
    if tier not in ("quick", "thorough"):
        print("tier must be quick or thorough")
        return 2
    seed = int(os.environ.get("VERIF_SEED", "1") or "1")
    t0 = time.time()
    nshards = mod.SHARDS[tier]
    known, fixed = load_findings(prop_id)

    exit_code = 0
    violations = []
    known_lines = []

    # 1. regression witnesses of fixed findings: a failure is a violation
    for e in fixed:
        for w in e.get("witnesses", []):
            case = from_jsonable(w["case"])
            try:
                _replay(mod, case, w.get("sub"))
            except Violation as v:
                violations.append({"case": w["case"], "sub": w.get("sub"),
                                   "message": "regression of fixed finding "
                                   f"{e['id']}: {v}"})
    # 2. witnesses of known (unrepaired) findings: expected to fail
    for e in known:
        still = 0
        for w in e.get("witnesses", []):
            case = from_jsonable(w["case"])
            try:
                _replay(mod, case, w.get("sub"))
            except Violation:
                still += 1
        if still:
            known_lines.append(f"KNOWN-FINDING: property={prop_id} {e['what']}")
        else:
            print(f"note: known finding {e['id']} no longer reproduces "
                  "(witnesses pass)")

    # 3. the search, sharded
    jobs = [(prop_id, tier, seed, i, nshards) for i in range(nshards)]
    results = run_shards(jobs, tier)

    errors = [r["error"] for r in results if "error" in r]
    evaluations = sum(r["evaluations"] for r in results)
    steps = sum(r["steps"] for r in results)
    nontriv = set()
    classes = {}
    samples = []
    excluded = {}
    notes = []
    inconclusive = 0
    for r in results:
        nontriv.update(r["nontrivial"])
        for k, v in r["classes"].items():
            classes[k] = classes.get(k, 0) + v
        for k, v in r["excluded_known"].items():
            excluded[k] = excluded.get(k, 0) + v
        samples.extend(r["samples"][:1])
        notes.extend(r["notes"])
        inconclusive += r["inconclusive"]
        violations.extend(r["violations"])

    # classify violations against the known-findings list
    matcher = getattr(mod, "matches_known", None)
    real = []
    for v in violations:
        hit = None
        if matcher is not None:
            for e in known:
                if matcher(e, from_jsonable(v["case"]), v["message"]):
                    hit = e
                    break
        if hit is not None:
            line = f"KNOWN-FINDING: property={prop_id} {hit['what']}"
            if line not in known_lines:
                known_lines.append(line)
        else:
            real.append(v)

    for line in known_lines:
        print(line)
    seen = set()
    for v in real:
        path = write_replay(prop_id, v)
        if path in seen:
            continue
        seen.add(path)
        print(f"violation: {v['message'][:600]}")
        print(f"VIOLATION property={prop_id} replay={path}")
        exit_code = 1

    wall = time.time() - t0
    rule = mod.RULE
    ev = {
        "property_id": prop_id,
        "tier": tier,
        "seed": seed,
        "level": mod.LEVEL,
        "coverage": {
            "evaluations": evaluations,
            "distinct_nontrivial": len(nontriv),
            "rule": rule,
            "samples": samples[:4],
            "steps": steps,
            "classes": dict(sorted(classes.items())),
            "excluded_known": excluded,
            "inconclusive": inconclusive,
            "shards": nshards,
            "exhaustive": bool(getattr(mod, "EXHAUSTIVE", {}).get(tier, False)),
            "notes": notes[:20],
            "known_findings_reported": known_lines,
            "fixed_witnesses_replayed": sum(len(e.get("witnesses", []))
                                            for e in fixed),
        },
        "assumptions": list(mod.ASSUMPTIONS),
        "wall_s": round(wall, 2),
        "violations": len(real),
    }
    edir = os.environ.get("VERIF_EVIDENCE_DIR") or os.path.join(ROOT, "evidence")
    os.makedirs(edir, exist_ok=True)
    with open(os.path.join(edir, f"{prop_id}.json"), "w") as f:
        json.dump(ev, f, indent=1, sort_keys=False)
        f.write("\n")

    if errors:
        print("HARNESS ERROR in", len(errors), "shard(s):")
        print(errors[0])
        return 2 if exit_code == 0 else exit_code
    print(f"{prop_id} {tier}: evaluations={evaluations} steps={steps} "
          f"distinct_nontrivial={len(nontriv)} violations={len(real)} "
          f"wall={wall:.1f}s")
    return exit_code


def _takes_sub(fn):
    import inspect
    return "sub" in inspect.signature(fn).parameters


def _replay(mod, case, sub):
    if _takes_sub(mod.replay):
        return mod.replay(case, sub=sub)
    return mod.replay(case)


if __name__ == "__main__":
    sys.exit(main())
