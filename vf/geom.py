"""Geometry oracles for traced paths (C10, C11, C12): vertex extraction from the
interpreted output and 'is this polyline on my own closed-form curve' tests."""

import math

import numpy as np

from vf.runner import Violation
from vf.common import Session
from vf import hist


def run_shape(start, mode, direction, dp, desc, ratio=None, res=None,
              pre=None, labels=None, rehearse=None, hooked=False, mirror=False):
    """Execute one tracer request on a fresh builder.

    start: (x, y, z) set exactly with set_axis (G92) or None (unknown position)
    Returns dict(session, info, verts, res, lines, exc).
    """
    s = Session(dp=dp)
    g = s.g
    if hooked:
        # a registered (pass-through) move hook must not change what is traced
        g.add_hook(lambda origin, target, params, state: params)
    if start is not None:
        g.set_axis(x=start[0], y=start[1], z=start[2])
    mirror = bool(mirror) and start is not None
    if mirror:
        # a mirror transform (x -> -x) is active while tracing: the machine is
        # first brought to the image of the start; the emitted vertices are
        # mapped back before they are judged, so the same path is expected
        g.transform.mirror("yz")
        g.move(x=start[0], y=start[1], z=start[2])
    g.set_distance_mode(mode)
    g.set_direction(direction)
    if pre is not None:
        m0, a0, k0, i0 = hist.build_shape(g, pre)
        g.set_resolution(max(hist.shape_length(i0) / 12.0, 0.05))
        getattr(g.trace, m0)(*a0, **k0)
    s.poll()
    method, args, kw, info = hist.build_shape(g, desc)
    L = hist.shape_length(info)
    if res is None:
        if info.get("kind") == "helix" and info.get("turns"):
            # a polyline can only show the number of turns if it has several
            # vertices per turn: at least 8 per turn (the turn count is taken
            # from the request as built, e.g. after a "land on Z = 0" rewrite)
            ratio = max(ratio, 8.0 * info["turns"])
        res = L / ratio
        if not res > 1e-300:
            res = 0.05      # zero-length / subnormal-length request: any valid resolution
    if rehearse:
        # the very same request is traced first at another resolution
        # (res * rehearse) on this builder; then the head is re-zeroed to the
        # start (G92) and the request is issued again at `res`
        p_start = g.position.resolve()
        g.set_resolution(float(res) * float(rehearse))
        try:
            getattr(g.trace, method)(*args, **kw)
        except Exception:
            pass
        g.set_axis(x=float(p_start.x), y=float(p_start.y), z=float(p_start.z))
        s.poll()
        method, args, kw, info = hist.build_shape(g, desc)
    g.set_resolution(float(res))
    p0 = g.position.resolve()
    start_abs = (float(p0.x), float(p0.y), float(p0.z))
    mpos0 = dict(s.machine.pos)
    exc = None
    try:
        getattr(g.trace, method)(*args, **kw)
    except Exception as e:
        exc = e
    lines = s.poll()
    if mirror:
        verts = vertices(lines, (-start_abs[0], start_abs[1], start_abs[2]), mode == "relative")
        verts = [(-v[0], v[1], v[2]) for v in verts]
    else:
        verts = vertices(lines, start_abs, mode == "relative")
    return {"s": s, "info": info, "verts": verts, "res": float(res), "lines": lines,
            "exc": exc, "start": start_abs, "L": L, "call": (method, args)}


def vertices(lines, start_abs, relative):
    """Absolute vertices (floats) reconstructed from emitted lines; raises
    Violation if a line is not a G1 move."""
    from vf.machine import norm_code
    p = list(start_abs)
    out = []
    for words, comments, raw in lines:
        codes = [norm_code(w) for w in words if w.letter in ("G", "M")]
        if codes != ["G1"]:
            raise Violation(f"tracer emitted a non-G1 line: {raw!r}")
        for w in words:
            if w.letter in "XYZ":
                k = "XYZ".index(w.letter)
                v = float(w.value)
                p[k] = p[k] + v if relative else v
        out.append(tuple(p))
    return out


class Curve:
    """C(f) = c + (r0 + (r1-r0) f) (cos, sin)(a0 + S f),  z0 + dz f."""

    def __init__(self, c, r0, r1, a0, S, z0, dz):
        self.c, self.r0, self.r1, self.a0, self.S, self.z0, self.dz = c, r0, r1, a0, S, z0, dz

    def at(self, f):
        r = self.r0 + (self.r1 - self.r0) * f
        a = self.a0 + self.S * f
        return (self.c[0] + r * math.cos(a), self.c[1] + r * math.sin(a), self.z0 + self.dz * f)

    def table(self, n):
        f = np.linspace(0.0, 1.0, n + 1)
        r = self.r0 + (self.r1 - self.r0) * f
        a = self.a0 + self.S * f
        pts = np.column_stack((self.c[0] + r * np.cos(a), self.c[1] + r * np.sin(a),
                               self.z0 + self.dz * f))
        return f, pts

    def max_speed(self):
        rm = max(abs(self.r0), abs(self.r1))
        return math.sqrt((self.r1 - self.r0) ** 2 + (rm * self.S) ** 2 + self.dz ** 2)

    def length(self, n=20000):
        _, pts = self.table(n)
        return float(np.linalg.norm(np.diff(pts, axis=0), axis=1).sum())


def on_curve(curve, verts, res, tol, what):
    """Every vertex within tol of the curve at strictly increasing parameters,
    the last one at f=1.  Returns the list of parameters."""
    speed = max(curve.max_speed(), 1e-12)
    turns = abs(curve.S) / (2 * math.pi)
    n = int(min(1000000, max(2000, 40 * speed / res, 1000 * turns)))
    f, pts = curve.table(n)
    seg = np.linalg.norm(np.diff(pts, axis=0), axis=1)
    cum = np.concatenate(([0.0], np.cumsum(seg)))
    total = float(cum[-1])
    params = []
    j_prev, f_prev = 0, 0.0
    for i, v in enumerate(verts):
        # window: up to 4 resolutions of travel beyond the previous match
        j_hi = int(np.searchsorted(cum, cum[j_prev] + 4 * res + 4 * tol, side="right"))
        j_hi = min(max(j_hi, j_prev + 2), n)
        w = pts[j_prev:j_hi + 1] - np.array(v)
        d = np.einsum("ij,ij->i", w, w)
        # a curve may pass through the same place more than once (several
        # turns at constant radius and height): take the EARLIEST stretch of
        # the window that comes within tolerance, not the global minimum
        spacing = float(seg[j_prev:j_hi].max()) if j_hi > j_prev else 0.0
        close = np.nonzero(d <= (tol + spacing) ** 2)[0]
        if close.size:
            k0 = int(close[0])
            k1 = k0
            while k1 + 1 < d.size and d[k1 + 1] <= d[k1]:
                k1 += 1
            j = j_prev + k1
        else:
            j = j_prev + int(np.argmin(d))
        lo = f[max(j - 1, 0)]
        hi = f[min(j + 1, n)]
        lo = max(lo, f_prev)
        # ternary refinement on the exact closed form
        for _ in range(50):
            m1 = lo + (hi - lo) / 3
            m2 = hi - (hi - lo) / 3
            if math.dist(curve.at(m1), v) < math.dist(curve.at(m2), v):
                hi = m2
            else:
                lo = m1
        fi = (lo + hi) / 2
        dist = math.dist(curve.at(fi), v)
        if dist > tol:
            raise Violation(
                f"{what}: vertex #{i} {v} is {dist:.3e} away from the requested curve "
                f"(nearest parameter {fi:.6f} at or after the previous vertex's "
                f"{f_prev:.6f}; tolerance {tol:.2e})")
        if i > 0 and not fi > f_prev:
            # two vertices closer to each other than the tolerance (e.g. the
            # always-kept final sample right after a kept one) are fine
            if math.dist(v, verts[i - 1]) > 2 * tol:
                raise Violation(f"{what}: vertex #{i} does not advance along the curve "
                                f"(parameter {fi:.9f} after {f_prev:.9f})")
        params.append(fi)
        f_prev, j_prev = fi, max(j - 1, j_prev)
    end_speed = max(1e-9, math.sqrt((curve.r1 - curve.r0) ** 2 +
                                    (curve.r1 * curve.S) ** 2 + curve.dz ** 2))
    if params and abs(params[-1] - 1.0) > 4 * (tol + 1e-9) / end_speed + 1e-9:
        raise Violation(f"{what}: the path ends at parameter {params[-1]:.9f} of the "
                        "requested curve, not at its end")
    return params, total


def point_segment_distance(p, a, b):
    ab = [b[i] - a[i] for i in range(3)]
    ap = [p[i] - a[i] for i in range(3)]
    den = sum(x * x for x in ab)
    t = 0.0 if den == 0 else max(0.0, min(1.0, sum(x * y for x, y in zip(ap, ab)) / den))
    q = [a[i] + ab[i] * t for i in range(3)]
    return math.dist(p, q), t


def segment_hits(p, a, b, radius, t_min=0.0):
    """Earliest parameter t in [t_min, 1] at which the segment a->b is within
    `radius` of point p, or None."""
    ab = [b[i] - a[i] for i in range(3)]
    ap = [a[i] - p[i] for i in range(3)]
    A = sum(x * x for x in ab)
    B = 2 * sum(x * y for x, y in zip(ab, ap))
    C = sum(x * x for x in ap) - radius * radius
    if A == 0:
        return t_min if C <= 0 else None
    disc = B * B - 4 * A * C
    if disc < 0:
        return None
    r = math.sqrt(disc)
    lo, hi = (-B - r) / (2 * A), (-B + r) / (2 * A)
    lo, hi = max(lo, t_min, 0.0), min(hi, 1.0)
    return lo if lo <= hi else None


def arc_radius_geometry(start, target, R, major, cw):
    """Independent derivation of centre and sweep for arc_radius."""
    dx, dy = target[0] - start[0], target[1] - start[1]
    chord = math.hypot(dx, dy)
    h = math.sqrt(max(R * R - (chord / 2) ** 2, 0.0))
    mx, my = (start[0] + target[0]) / 2, (start[1] + target[1]) / 2
    cands = [(mx - h * dy / chord, my + h * dx / chord),
             (mx + h * dy / chord, my - h * dx / chord)]
    best = None
    for c in cands:
        a0 = math.atan2(start[1] - c[1], start[0] - c[0])
        a1 = math.atan2(target[1] - c[1], target[0] - c[0])
        d = a1 - a0
        if cw:
            while d >= 0:
                d -= 2 * math.pi
            while d < -2 * math.pi:
                d += 2 * math.pi
        else:
            while d <= 0:
                d += 2 * math.pi
            while d > 2 * math.pi:
                d -= 2 * math.pi
        is_major = abs(d) > math.pi
        if is_major == major:
            best = (c, a0, d)
    return best
