"""Helpers shared by the builder-side checks: recording writer, builder
construction under a generated configuration, incremental lexing."""

import math
from fractions import Fraction

from vf.runner import Violation, HarnessError  # noqa: F401  (also sets sys.path)
from vf import gcode_lex
from vf.machine import Machine


def recorder_class():
    from gscrib.writers import BaseWriter

    class Recorder(BaseWriter):
        def __init__(self):
            self.data = bytearray()
            self.calls = []
            self.flushes = 0
            self.disconnects = 0
            self.connects = 0

        def connect(self):
            self.connects += 1
            return self

        def disconnect(self, wait=True):
            self.disconnects += 1

        def write(self, statement):
            self.calls.append(bytes(statement))
            self.data += statement

        def flush(self):
            self.flushes += 1

    return Recorder


_EOLS = {"lf": ("\\n", "\n"), "crlf": ("\\r\\n", "\r\n"), "cr": ("\\r", "\r"),
         "rawlf": ("\n", "\n"), "rawcrlf": ("\r\n", "\r\n")}


def eol_of(name):
    """name -> (value passed to gscrib's line_endings option, actual EOL)."""
    return _EOLS[name]


class Session:
    """A GCodeBuilder with a recording writer and an interpreter fed
    incrementally with whatever the builder emitted since the last poll."""

    def __init__(self, dp=5, eol="lf", comment=";", labels=None, strict=True,
                 builder_cls=None):
        import gscrib
        cfg_eol, self.eol = eol_of(eol)
        kw = dict(decimal_places=dp, line_endings=cfg_eol,
                  comment_symbols=comment)
        self.axis_labels = {"X": "X", "Y": "Y", "Z": "Z"}
        if labels:
            for ax, lab in labels.items():
                kw[ax.lower() + "_axis"] = lab
                self.axis_labels[ax.upper()] = lab.strip().upper()
        cls = builder_cls or gscrib.GCodeBuilder
        self.g = cls(**kw)
        self.rec = recorder_class()()
        self.g.add_writer(self.rec)
        self.dp = dp
        self.U = Fraction(1, 2) / (Fraction(10) ** dp)
        self.comment = comment
        self.strict = strict
        self.machine = Machine({lab: ax for ax, lab in self.axis_labels.items()})
        self._consumed = 0
        self.blocks = []          # all parsed blocks so far: (words, comments, raw)

    def new_bytes(self):
        return bytes(self.rec.data[self._consumed:])

    def poll(self, each=None):
        """Lex and execute everything emitted since the last poll.
        Returns the list of new (words, comments, rawline); `each(words, raw)`
        is called after each line has been executed by the machine."""
        data = self.new_bytes()
        self._consumed = len(self.rec.data)
        if not data:
            return []
        try:
            lines = gcode_lex.split_lines(data, self.eol)
        except gcode_lex.LexError as e:
            raise Violation(f"malformed output: {e}")
        out = []
        for line in lines:
            try:
                words, comments = gcode_lex.parse_block(line, self.comment,
                                                        self.strict)
            except gcode_lex.LexError as e:
                raise Violation(f"malformed block {line!r}: {e}")
            self.machine.execute(words)
            if each is not None:
                each(words, line)
            out.append((words, comments, line))
        self.blocks.extend(out)
        return out


def ulp(x):
    x = abs(float(x))
    if x == 0 or math.isinf(x) or math.isnan(x):
        return 5e-324
    return math.ulp(x)


def frac(x):
    return Fraction(float(x))


def word_faithful(text, value, dp):
    """C08 number rule: |w - exact(v)| <= U(dp) or w parses back to the very
    same value of v's own dtype (shortest round-trip printing)."""
    import numpy as np
    w = Fraction(text)
    U = Fraction(1, 2) / (Fraction(10) ** dp)
    if isinstance(value, (int, np.integer)):
        exact = Fraction(int(value))
    else:
        exact = Fraction(float(value))
    # a floating-point value stands for every real within half an ulp of it IN
    # ITS OWN DTYPE (a printer working from the shortest decimal that denotes
    # the float32 7.5e-05 rounds "0.000075", not 0.0000749999981...)
    half_ulp = Fraction(0)
    if isinstance(value, np.floating):
        sp = float(np.spacing(np.abs(value)))
        if math.isfinite(sp):
            half_ulp = Fraction(sp) / 2
    elif isinstance(value, float):
        half_ulp = Fraction(math.ulp(value)) / 2
    if abs(w - exact) <= U + half_ulp:
        return True
    try:
        if isinstance(value, np.floating):
            return type(value)(text) == value
        if isinstance(value, float):
            return float(text) == value
    except Exception:
        return False
    return False


# ---------------------------------------------------------------------------
# Generic call descriptors: {"op": name, "args": [...], "kw": {...}}
# ---------------------------------------------------------------------------

def apply_call(g, call):
    """Execute one call descriptor on builder g (plain getattr dispatch).
    'trace.<shape>' ops go to g.trace; 'transform.<op>' to g.transform."""
    op = call["op"]
    if op == "other_builder":
        from vf.statehist import other_builder_activity
        other_builder_activity(call.get("cfg"))
        return None
    if op == "install_power_hook":
        # a move hook that derives the tool power from the feed (S = F/20) and
        # returns a NEW mapping: with tool-power limits a fast move is rejected
        # because of a word the caller never wrote
        from gscrib.params import ParamsDict

        def power_from_feed(origin, target, params, state):
            new = ParamsDict(params)
            if new.get("F") is not None:
                new["S"] = new["F"] / 20.0
            return new
        g.add_hook(power_from_feed)
        return None
    if op == "aborted_path":
        return aborted_path(g, call)
    if op == "box_excluding_position":
        return box_excluding_position(g, call)
    args = list(call.get("args", ()))
    kw = dict(call.get("kw", {}))
    target = g
    if op.startswith("trace."):
        target, op = g.trace, op[6:]
    elif op.startswith("transform."):
        target, op = g.transform, op[10:]
    return getattr(target, op)(*args, **kw)


def box_excluding_position(g, call):
    """Set an axes box so that the CURRENT position lies outside it on axis
    call['axis'] (limits tightened while the head is parked outside): every
    later command that keeps that axis where it is targets a point outside."""
    p0 = [0.0 if c is None else float(c) for c in g.position]
    lo = [c - 50.0 for c in p0]
    hi = [c + 50.0 for c in p0]
    k = call["axis"]
    if call.get("below"):
        hi[k] = p0[k] - call["gap"]
        lo[k] = hi[k] - call["w"]
    else:
        lo[k] = p0[k] + call["gap"]
        hi[k] = lo[k] + call["w"]
    g.set_bounds("axes", lo, hi)
    return None


class _Abort(Exception):
    pass


def aborted_path(g, call):
    """A traced path that fails part-way: a move hook raises on segment
    number call['after'] + 1 (a limit violation would do the same).  Whatever
    was emitted before stays emitted; the failure itself is swallowed, and
    the builder must go on working normally afterwards."""
    pos = g.position.resolve()
    if max(abs(float(c)) for c in pos) > 1e4:
        # far from the origin the tracer's sampling cost explodes (see
        # hist.SHAPE_POS_LIMIT): no shape is issued there
        return None
    n = {"k": 0}

    def hook(origin, target, params, state):
        n["k"] += 1
        if n["k"] > call.get("after", 2):
            raise _Abort()
        return params
    g.add_hook(hook)
    res0 = g.state.resolution
    try:
        g.set_resolution(1.0)
        if call.get("shape") == "polyline":
            g.trace.polyline([(1.0, 0.0), (2.0, 1.0), (3.0, 0.0), (4.0, 1.0), (5.0, 0.0)])
        elif call.get("shape") == "spline":
            g.trace.spline([(2.0, 1.0), (4.0, -1.0), (6.0, 0.5)])
        else:
            g.trace.circle((3.0, 0.0))
    except Exception:
        pass
    finally:
        g.remove_hook(hook)
        g.set_resolution(res0)
    return None


def finite(x):
    try:
        return math.isfinite(float(x))
    except Exception:
        return False
