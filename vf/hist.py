"""Generators and executors for builder call histories (JSON-able op lists).

An op is a dict; primitive ops map to one builder call, 'ctx' ops wrap a
sub-list in a mode context manager (optionally raising at the end), tracer
ops ('shape') carry a *geometric descriptor* that is turned into a valid
request from the builder's own reported position at execution time
(construction instead of rejection).
"""

import math

from vf.runner import Violation, HarnessError


class _Boom(Exception):
    """Private exception raised inside generated context bodies."""


class _BoomBase(BaseException):
    """Same, but not an Exception subclass (like KeyboardInterrupt/SystemExit):
    'also when the body raises' must not depend on the exception's base."""


def boom(kind):
    """kind: True/'exc' -> _Boom, 'base' -> _BoomBase."""
    return _BoomBase() if kind == "base" else _Boom()


# ---------------------------------------------------------------------------
# weighted alternatives
# ---------------------------------------------------------------------------

def weighted(*pairs):
    """Alternatives with REAL weights: weighted((3, a), (1, b)) draws a three
    times out of four.  Hypothesis' own one_of() flattens nested alternatives
    (also through .map()), drops repeated strategy objects and then chooses
    uniformly among all leaves, so "one_of(a, a, a, b)" gives no weight at all
    and a strategy with many leaves crowds out its neighbours.  The choice is
    drawn explicitly here (first alternative = simplest for shrinking)."""
    from hypothesis import strategies as st
    strategies = [s_ for _, s_ in pairs]
    table = [i for i, (w, _) in enumerate(pairs) for _ in range(int(w))]
    return st.sampled_from(table).flatmap(lambda i: strategies[i])


def equally(*strategies):
    """Alternatives with equal weight each, whatever their inner structure."""
    return weighted(*[(1, s_) for s_ in strategies])


# ---------------------------------------------------------------------------
# coordinate strategies
# ---------------------------------------------------------------------------

def coord_strategy(big=True):
    from hypothesis import strategies as st
    opts = [
        st.integers(-50, 50).map(float),
        st.integers(-50, 50).map(float),
        st.integers(-4000, 4000).map(lambda k: k / 8.0),
        st.floats(min_value=-1e3, max_value=1e3, allow_nan=False),
        st.floats(min_value=-1e6, max_value=1e6, allow_nan=False),
        st.sampled_from([0.0, -0.0, 5e-324, 1e-7, 0.05, 0.005, 0.5, 0.15,
                         2.675, 1.005, -0.125, 1e-9]),
        # near rounding ties at some decimal place
        st.tuples(st.integers(-2000, 2000), st.integers(0, 6),
                  st.integers(-2, 2)).map(_tie),
    ]
    if big:
        opts.append(st.floats(min_value=-1e12, max_value=1e12, allow_nan=False))
    return st.one_of(*opts)


def _tie(t):
    k, dp, off = t
    v = (k + 0.5) / 10.0 ** dp
    for _ in range(abs(off)):
        v = math.nextafter(v, math.inf if off > 0 else -math.inf)
    return v


def point_strategy(coord=None, allow_empty=True):
    """dict subset of x/y/z."""
    from hypothesis import strategies as st
    c = coord if coord is not None else coord_strategy()
    d = st.fixed_dictionaries({}, optional={"x": c, "y": c, "z": c})
    if not allow_empty:
        d = d.filter(lambda p: len(p) > 0)
    # single-axis requests are the common case in real programs and the ones
    # where partial-axis bookkeeping goes wrong: give them extra weight
    single = st.tuples(st.sampled_from(["x", "y", "z"]), c).map(lambda t: {t[0]: t[1]})
    return st.one_of(d, d, single)


def small_coord():
    from hypothesis import strategies as st
    return st.one_of(st.integers(-40, 40).map(float),
                     st.integers(-320, 320).map(lambda k: k / 8.0),
                     st.floats(min_value=-100, max_value=100, allow_nan=False))


# ---------------------------------------------------------------------------
# shapes (tracer requests built from the current position)
# ---------------------------------------------------------------------------

def shape_strategy(max_turns=3):
    from hypothesis import strategies as st
    ang = st.floats(min_value=-math.pi, max_value=math.pi, allow_nan=False)
    rad = st.floats(min_value=0.5, max_value=40.0)
    dz = st.one_of(st.just(0.0), st.floats(min_value=-20, max_value=20))
    off = st.floats(min_value=-30, max_value=30, allow_nan=False)
    nz = off.filter(lambda v: abs(v) > 0.5)
    # "land": the request ends at absolute Z exactly 0 ("z0"; offset -z in
    # relative mode), or (polyline/spline only) at X = Y = 0 exactly ("xy0"):
    # exact zeros are falsy, and a target of 0 is as valid as any other
    land = st.sampled_from([None, None, None, None, None, "z0", "z0", "xy0"])
    cz = st.sampled_from([None, None, None, 0.0, 5.0, -2.5])
    return st.tuples(_shape_strategy(max_turns, ang, rad, dz, off, nz), land, cz).map(
        lambda t: dict(dict(t[0], land=t[1]) if t[1] else t[0],
                       **({"cz": t[2]} if t[2] is not None and t[0]["shape"] in ("arc", "circle")
                          else {})))


def _shape_strategy(max_turns, ang, rad, dz, off, nz):
    from hypothesis import strategies as st
    return st.one_of(
        st.fixed_dictionaries({"shape": st.just("arc"), "r": rad, "a0": ang,
                               "sweep": st.floats(min_value=0.05, max_value=2 * math.pi - 0.05),
                               "dz": dz, "zgiven": st.booleans()}),
        st.fixed_dictionaries({"shape": st.just("arc_radius"), "dx": nz, "dy": off,
                               "rf": st.floats(min_value=1.05, max_value=4.0),
                               "neg": st.booleans(), "dz": dz, "zgiven": st.booleans()}),
        st.fixed_dictionaries({"shape": st.just("circle"), "cx": nz, "cy": off}),
        st.fixed_dictionaries({"shape": st.just("spline"),
                               "pts": st.lists(st.tuples(nz, off, dz), min_size=2, max_size=5),
                               "zgiven": st.booleans()}),
        st.fixed_dictionaries({"shape": st.just("helix"), "r": rad, "a0": ang,
                               "r1": rad, "sweep": st.floats(min_value=0.05, max_value=2 * math.pi - 0.05),
                               "turns": st.integers(1, max_turns), "dz": dz,
                               "zgiven": st.booleans()}),
        st.fixed_dictionaries({"shape": st.just("thread"), "dx": nz, "dy": off,
                               "dz": st.floats(min_value=-12, max_value=12),
                               "pitch": st.floats(min_value=0.5, max_value=8.0)}),
        st.fixed_dictionaries({"shape": st.just("spiral"), "r1": rad,
                               "a1": ang.filter(lambda a: abs(a) > 0.05),
                               "turns": st.integers(1, max_turns), "dz": dz,
                               "zgiven": st.booleans()}),
        st.fixed_dictionaries({"shape": st.just("polyline"),
                               "pts": st.lists(st.tuples(off, off, dz), min_size=1, max_size=5),
                               "zgiven": st.booleans()}),
    )


def _to_mode(g, p, absxyz, n):
    """Express absolute point absxyz (len 3) as target of length n in g's mode."""
    if g.distance_mode.is_relative:
        t = [absxyz[i] - p[i] for i in range(3)]
    else:
        t = list(absxyz)
    return tuple(t[:n])


def build_shape(g, d, clockwise=None):
    """-> (method name, args, kwargs, info) for descriptor d from g.position.
    info holds the intended geometry in absolute coordinates."""
    pos = g.position.resolve()
    p = (float(pos.x), float(pos.y), float(pos.z))
    cw = (g.state.direction.value == "clockwise") if clockwise is None else clockwise
    sgn = -1.0 if cw else 1.0
    s = d["shape"]
    land = d.get("land")
    if land == "z0" and s != "circle":
        if s in ("spline", "polyline"):
            pts = [tuple(q) for q in d["pts"]]
            zsum = p[2]
            for q in pts[:-1]:
                zsum = zsum + q[2]
            pts[-1] = (pts[-1][0], pts[-1][1], -zsum)
            d = dict(d, pts=pts, zgiven=True)
        elif s == "thread" and abs(p[2]) / d["pitch"] > 40:
            pass        # would mean hundreds of turns: the request keeps its own rise
        else:
            d = dict(d, dz=-p[2], zgiven=True)
    if land == "xy0" and s in ("spline", "polyline"):
        pts = [tuple(q) for q in d["pts"]]
        xs, ys = p[0], p[1]
        for q in pts[:-1]:
            xs, ys = xs + q[0], ys + q[1]
        if abs(xs) > 0.5 or abs(ys) > 0.5 or s == "polyline":
            pts[-1] = (-xs, -ys, pts[-1][2])
            d = dict(d, pts=pts)
    if d.get("full") == "nominal":
        # the caller works with the nominal (rounded) coordinates of the
        # current position, as after a traced path that "ended on target".
        # (9 decimals for radii >= 2, 10 below: rounding to 9 decimals moves a
        # point by up to 7e-10, which on a small circle reaches the library's
        # 1e-9 rad "same angle" tolerance - an ambiguous request, not judged.)
        nd = d.get("nominal_decimals") or (9 if min(d.get("r", 2.0), d.get("r1", 2.0)) >= 2.0 else 10)
        p = tuple(round(x, nd) for x in p)
    if s == "arc":
        r, a0 = d["r"], d["a0"]
        c = (p[0] - r * math.cos(a0), p[1] - r * math.sin(a0))
        a1 = a0 + sgn * d["sweep"]
        n = 3 if d["zgiven"] else 2
        dz = d["dz"] if d["zgiven"] else 0.0
        T = (c[0] + r * math.cos(a1), c[1] + r * math.sin(a1), p[2] + dz)
        if d.get("full"):      # target at the start angle: a full turn
            T = (p[0], p[1], p[2] + dz)
            d = dict(d, sweep=2 * math.pi)
        cen = (c[0] - p[0], c[1] - p[1])
        if d.get("cz") is not None:
            # the centre offset given with a third component (e.g. computed by
            # point arithmetic): arcs are planar, the component means nothing
            cen = cen + (float(d["cz"]),)
        return ("arc", [_to_mode(g, p, T, n), cen], {},
                {"kind": "arc", "c": c, "r": r, "a0": a0, "sweep": sgn * d["sweep"],
                 "z0": p[2], "dz": dz, "target": T, "start": p})
    if s == "arc_radius":
        dx, dy = d["dx"], d["dy"]
        chord = math.hypot(dx, dy)
        R = d["rf"] * chord / 2.0
        n = 3 if d["zgiven"] else 2
        dz = d["dz"] if d["zgiven"] else 0.0
        T = (p[0] + dx, p[1] + dy, p[2] + dz)
        radius = -R if d["neg"] else R
        return ("arc_radius", [_to_mode(g, p, T, n), radius], {},
                {"kind": "arc_radius", "R": R, "major": d["neg"], "cw": cw,
                 "z0": p[2], "dz": dz, "target": T, "start": p})
    if s == "circle":
        c = (p[0] + d["cx"], p[1] + d["cy"])
        r = math.hypot(d["cx"], d["cy"])
        return ("circle", [(d["cx"], d["cy"]) + ((float(d["cz"]),) if d.get("cz") is not None else ())], {},
                {"kind": "circle", "c": c, "r": r,
                 "a0": math.atan2(-d["cy"], -d["cx"]), "sweep": sgn * 2 * math.pi,
                 "z0": p[2], "dz": 0.0, "target": p, "start": p})
    if s in ("spline", "polyline"):
        n = 3 if d["zgiven"] else 2
        pts_abs, cur = [], p
        for (ox, oy, oz) in d["pts"]:
            cur = (cur[0] + ox, cur[1] + oy, cur[2] + (oz if d["zgiven"] else 0.0))
            pts_abs.append(cur)
        if d.get("revisit") is not None and len(pts_abs) >= 2:
            # pass again through an earlier control point (figure-eight)
            pts_abs.append(pts_abs[d["revisit"] % (len(pts_abs) - 1)])
        if d.get("closed"):
            pts_abs.append(p)          # come back to the start position exactly
        args, prev = [], p
        for q in pts_abs:
            if g.distance_mode.is_relative:
                t = tuple(q[i] - prev[i] for i in range(3))[:n]
            else:
                t = q[:n]
            args.append(t)
            prev = q
        return (s, [args], {}, {"kind": s, "pts": pts_abs, "target": pts_abs[-1],
                                 "start": p})
    if s == "helix":
        r, a0 = d["r"], d["a0"]
        c = (p[0] - r * math.cos(a0), p[1] - r * math.sin(a0))
        a1 = a0 + sgn * d["sweep"]
        n = 3 if d["zgiven"] else 2
        dz = d["dz"] if d["zgiven"] else 0.0
        r1 = d["r1"]
        T = (c[0] + r1 * math.cos(a1), c[1] + r1 * math.sin(a1), p[2] + dz)
        if d.get("full"):      # target at the start angle: whole turns only
            T = (c[0] + (r1 / r) * (p[0] - c[0]), c[1] + (r1 / r) * (p[1] - c[1]), p[2] + dz)
            d = dict(d, sweep=2 * math.pi)
        total = sgn * (d["sweep"] + 2 * math.pi * (d["turns"] - 1))
        return ("helix", [_to_mode(g, p, T, n), (c[0] - p[0], c[1] - p[1]), d["turns"]], {},
                {"kind": "helix", "c": c, "r0": r, "r1": r1, "a0": a0,
                 "sweep": total, "z0": p[2], "dz": dz, "target": T, "start": p,
                 "turns": d["turns"]})
    if s == "thread":
        # the turn count is int(|rise| / pitch) of the rise the library sees
        # (target - start, after float rounding): a rise within 1e-9 of a whole
        # number of pitches is a tie that rounding decides - moved off the tie
        rise = (p[2] + d["dz"]) - p[2]
        q = abs(rise) / d["pitch"]
        if abs(q - round(q)) < 1e-9 and round(q) >= 1:
            d = dict(d, dz=d["dz"] * 1.001953125)
        T = (p[0] + d["dx"], p[1] + d["dy"], p[2] + d["dz"])
        c = ((p[0] + T[0]) / 2, (p[1] + T[1]) / 2)
        r = math.hypot(d["dx"], d["dy"]) / 2
        turns = max(1, int(abs(T[2] - p[2]) / d["pitch"]))
        a0 = math.atan2(p[1] - c[1], p[0] - c[0])
        total = sgn * (math.pi + 2 * math.pi * (turns - 1))
        return ("thread", [_to_mode(g, p, T, 3), d["pitch"]], {},
                {"kind": "helix", "c": c, "r0": r, "r1": r, "a0": a0,
                 "sweep": total, "z0": p[2], "dz": d["dz"], "target": T,
                 "start": p, "turns": turns})
    if s == "spiral":
        r1, a1 = d["r1"], d["a1"]
        n = 3 if d["zgiven"] else 2
        dz = d["dz"] if d["zgiven"] else 0.0
        T = (p[0] + r1 * math.cos(a1), p[1] + r1 * math.sin(a1), p[2] + dz)
        # start angle is atan2(0, 0) = 0; base sweep from 0 to a1 in direction
        base = a1
        if cw and base >= 0:
            base -= 2 * math.pi
        if (not cw) and base <= 0:
            base += 2 * math.pi
        total = base + sgn * 2 * math.pi * (d["turns"] - 1)
        return ("spiral", [_to_mode(g, p, T, n), d["turns"]], {},
                {"kind": "helix", "c": (p[0], p[1]), "r0": 0.0, "r1": r1, "a0": 0.0,
                 "sweep": total, "z0": p[2], "dz": dz, "target": T, "start": p,
                 "turns": d["turns"]})
    raise HarnessError("unknown shape %r" % (s,))


def shape_length(info):
    k = info["kind"]
    if k in ("arc", "circle"):
        return math.hypot(info["r"] * info["sweep"], info["dz"])
    if k == "arc_radius":
        return math.hypot(2 * math.pi * info["R"], info["dz"])
    if k == "helix":
        rm = max(info["r0"], info["r1"])
        return math.hypot(rm * abs(info["sweep"]), info["dz"]) + abs(info["r1"] - info["r0"])
    pts = [info["start"]] + list(info["pts"])
    return sum(math.dist(a, b) for a, b in zip(pts, pts[1:])) or 1.0


# ---------------------------------------------------------------------------
# motion ops
# ---------------------------------------------------------------------------

SHAPE_POS_LIMIT = 1e4

PROBE_MODES = ["towards", "towards-no-error", "away", "away-no-error"]


def motion_op_strategy(coord=None, shapes=True, depth=2):
    from hypothesis import strategies as st
    pt = point_strategy(coord)
    form = st.sampled_from(["kw", "kw", "list", "point"])
    mv = st.fixed_dictionaries({"op": st.sampled_from(["move", "rapid"]), "pt": pt, "form": form})
    bypass = st.fixed_dictionaries({"op": st.sampled_from(["move_absolute", "rapid_absolute"]),
                                    "pt": pt, "form": form})
    sa = st.fixed_dictionaries({"op": st.just("set_axis"), "pt": pt, "form": form})
    # homing words are usually zeros ("G28 X0 Y0"): a subset of axes, each exactly 0
    zeros = st.fixed_dictionaries({}, optional={"x": st.just(0.0), "y": st.just(0.0),
                                                "z": st.sampled_from([0.0, 0])})
    ah = st.fixed_dictionaries({"op": st.just("auto_home"), "pt": st.one_of(pt, zeros),
                                "form": st.just("kw")})
    pr = st.fixed_dictionaries({"op": st.just("probe"), "mode": st.sampled_from(PROBE_MODES),
                                "pt": pt, "form": form})
    dm = st.fixed_dictionaries({"op": st.just("set_distance_mode"),
                                "mode": st.sampled_from(["absolute", "relative"])})
    noise = equally(
        st.sampled_from([("set_extrusion_mode", "relative"), ("set_extrusion_mode", "absolute"),
                         ("set_feed_mode", "1/time"), ("set_feed_mode", "units/min"),
                         ("set_plane", "zx"), ("comment", "note"), ("set_length_units", "in"),
                         ("set_feed_rate", 1200.0)]).map(
            lambda t: {"op": "noise", "call": t[0], "args": [t[1]]}),
        st.sampled_from([{"decimal_places": 1}, {"decimal_places": 0, "y_axis": "V"},
                         {"x_axis": "A", "z_axis": "C", "comment_symbols": "("},
                         {"decimal_places": 9, "line_endings": "\\r\\n"}]).map(
            lambda c: {"op": "other_builder", "cfg": c}),
        # a traced path that fails part-way (a hook raises on segment after+1)
        st.tuples(st.sampled_from(["circle", "polyline", "spline"]), st.integers(0, 4)).map(
            lambda t: {"op": "call", "call": {"op": "aborted_path", "shape": t[0], "after": t[1]}}))
    # ops that emit nothing and are carried out by the property's own `before`
    # hook (C01): relabelling an axis in the middle of a history, and the
    # pure conversion helpers to_absolute / to_absolute_list / to_distance_mode
    aux = equally(
        st.fixed_dictionaries({"op": st.just("relabel"), "axis": st.sampled_from(["x", "y", "z"]),
                               "label": st.sampled_from(["A", "B", "C", "U", "V", "W", "X", "Y",
                                                         "Z", " a ", "w"]),
                               "via": st.sampled_from(["rename_axis", "format"])}),
        st.integers(0, 9).map(lambda n: {"op": "precision", "dp": n}),
        st.fixed_dictionaries({"op": st.just("query"),
                               "fn": st.sampled_from(["to_absolute", "to_distance_mode",
                                                      "to_absolute_list"]),
                               "pts": st.lists(pt, min_size=1, max_size=3)}))
    pairs = [(6, mv), (4, bypass), (2, sa), (2, ah), (2, pr), (3, dm), (2, noise), (1, aux)]
    if shapes:
        pairs.append((4, st.fixed_dictionaries(
            {"op": st.just("shape"), "d": shape_strategy(),
             "dir": st.sampled_from(["cw", "ccw"])})))
    prim = weighted(*pairs)
    if depth <= 0:
        return prim
    inner = motion_op_strategy(coord, shapes, depth - 1)
    ctx = st.fixed_dictionaries({
        "op": st.just("ctx"),
        "kind": st.sampled_from(["absolute_mode", "relative_mode"]),
        "body": st.lists(inner, min_size=0, max_size=4),
        "raise": st.sampled_from([False, False, True, "base"])})
    return weighted((6, prim), (1, ctx))


def point_args(op):
    """-> (args, kwargs) for the point part of a motion op."""
    import gscrib
    pt = op["pt"]
    form = op.get("form", "kw")
    if form == "kw" or not pt:
        return [], dict(pt)
    if form == "point":
        return [gscrib.geometry.Point(pt.get("x"), pt.get("y"), pt.get("z"))], {}
    lst = [pt.get("x"), pt.get("y"), pt.get("z")]
    while lst and lst[-1] is None:
        lst.pop()
    if not lst:
        return [], {}
    return [lst], {}


def run_ops(g, ops, after, before=None, depth=0):
    """Execute ops on builder g; call after(op, exc) after each primitive."""
    for op in ops:
        name = op["op"]
        if name == "ctx":
            cm = getattr(g, op["kind"])
            prev_mode = g.distance_mode.value
            try:
                with cm():
                    after({"op": "enter:" + op["kind"]}, None)
                    run_ops(g, op["body"], after, before, depth + 1)
                    if op.get("raise"):
                        raise boom(op["raise"])
            except (_Boom, _BoomBase):
                pass
            after({"op": "exit:" + op["kind"], "raised": bool(op.get("raise")),
                   "prev_mode": prev_mode}, None)
            continue
        if before:
            before(op)
        exc = None
        try:
            exec_primitive(g, op)
        except (_Boom, _BoomBase):
            raise
        except Exception as e:   # judged by the caller's oracle
            exc = e
        after(op, exc)


def exec_primitive(g, op):
    name = op["op"]
    if name in ("move", "rapid", "move_absolute", "rapid_absolute", "set_axis",
                "auto_home"):
        args, kw = point_args(op)
        kw.update(op.get("params", {}))
        if op.get("comment") is not None:
            kw["comment"] = op["comment"]
        return getattr(g, name)(*args, **kw)
    if name == "probe":
        args, kw = point_args(op)
        kw.update(op.get("params", {}))
        return g.probe(op["mode"], *args, **kw)
    if name == "set_distance_mode":
        return g.set_distance_mode(op["mode"])
    if name == "shape":
        pos = g.position.resolve()
        if max(abs(float(c)) for c in pos) > SHAPE_POS_LIMIT:
            # far from the origin the request cannot be built to the library's
            # own 1e-10 relative tolerance (and sampling cost explodes): the
            # shape is not issued there (generator restriction, stated in RULE)
            return "skipped"
        if op.get("dir"):
            g.set_direction(op["dir"])
        method, args, kw, info = build_shape(g, op["d"])
        res = op.get("res")
        if res is None:
            res = max(shape_length(info) / 24.0, 0.05)
        g.set_resolution(float(res))
        kw = dict(kw)
        kw.update(op.get("params", {}))
        return getattr(g.trace, method)(*args, **kw)
    if name in ("relabel", "query", "precision"):     # carried out by the caller's `before` hook
        return None
    if name == "noise":     # state-tracked calls that do not move anything
        return getattr(g, op["call"])(*op.get("args", []))
    if name == "other_builder":
        # another builder with a different configuration is created (and used)
        # while this one is alive: nothing of it may leak into this one
        import gscrib
        from vf.common import recorder_class
        other = gscrib.GCodeBuilder(**op["cfg"])
        other.add_writer(recorder_class()())
        other.move(x=1.23456789, y=2)
        other.set_distance_mode("relative")
        return None
    if name == "call":      # generic descriptor
        from vf.common import apply_call
        return apply_call(g, op["call"])
    raise HarnessError("unknown op %r" % (name,))


def count_ops(ops):
    n = 0
    for op in ops:
        n += 1
        if op["op"] == "ctx":
            n += count_ops(op["body"])
    return n


def flatten(ops):
    for op in ops:
        yield op
        if op["op"] == "ctx":
            yield from flatten(op["body"])
