"""Independent 4x4 affine model of gscrib's CoordinateTransformer (C04, C13).

Own composition rule  M' = T(p) . Op . T(-p) . M,  own rotation matrices
(written out per axis), scale, Householder reflection; own stack (list) and
name -> state table with *value semantics* (copies on save and on restore).
"""

import copy
import math

import numpy as np


def _T(p):
    m = np.eye(4)
    m[0, 3], m[1, 3], m[2, 3] = p
    return m


def rot(angle_deg, axis):
    a = math.radians(angle_deg)
    c, s = math.cos(a), math.sin(a)
    m = np.eye(4)
    if axis == "x":
        m[1, 1], m[1, 2], m[2, 1], m[2, 2] = c, -s, s, c
    elif axis == "y":
        m[0, 0], m[0, 2], m[2, 0], m[2, 2] = c, s, -s, c
    elif axis == "z":
        m[0, 0], m[0, 1], m[1, 0], m[1, 1] = c, -s, s, c
    else:
        raise ValueError(axis)
    return m


def scale(factors):
    f = list(factors)
    if len(f) == 1:
        f = [f[0]] * 3
    elif len(f) == 2:
        f = [f[0], f[1], 1.0]
    m = np.eye(4)
    m[0, 0], m[1, 1], m[2, 2] = f
    return m


def reflect(normal):
    n = np.array(normal[:3], dtype=float)
    n = n / math.sqrt(float(n @ n))
    m = np.eye(4)
    m[:3, :3] = np.eye(3) - 2.0 * np.outer(n, n)
    return m


def affine_strategy():
    """Hypothesis strategy for 4x4 affine matrices given to chain_transform():
    a shear (unit determinant), optionally times a diagonal and with a
    translation column -- invertible by construction; rows as nested lists."""
    from hypothesis import strategies as st
    k = st.one_of(st.sampled_from([0.5, -0.5, 1.0, 0.25]),
                  st.floats(min_value=-2, max_value=2))
    d = st.sampled_from([1.0, 1.0, 2.0, 0.5, -1.0])
    tr = st.one_of(st.just(0.0), st.integers(-8, 8).map(lambda i: i / 2.0))
    pair = st.sampled_from([(0, 1), (0, 2), (1, 0), (1, 2), (2, 0), (2, 1)])

    def build(t):
        (i, j), kk, dd, tt = t
        m = [[1.0 if r == c else 0.0 for c in range(4)] for r in range(4)]
        for a in range(3):
            m[a][a] = dd[a]
            m[a][3] = tt[a]
        m[i][j] = kk * dd[j]
        return m
    return st.tuples(pair, k, st.tuples(d, d, d), st.tuples(tr, tr, tr)).map(build)


PLANE_NORMAL = {"xy": (0, 0, 1), "yz": (1, 0, 0), "zx": (0, 1, 0)}


class State:
    def __init__(self, M=None, pivot=(0.0, 0.0, 0.0)):
        self.M = np.eye(4) if M is None else M.copy()
        self.pivot = tuple(pivot)

    def clone(self):
        return State(self.M, self.pivot)


class Model:
    def __init__(self):
        self.cur = State()
        self.stack = []
        self.named = {}

    def clone(self):
        return copy.deepcopy(self)

    # -- operations ---------------------------------------------------------
    def chain(self, op):
        p = self.cur.pivot
        self.cur.M = _T(p) @ op @ _T(tuple(-c for c in p)) @ self.cur.M

    def apply_op(self, name, args):
        """Mirror of one transformer call; returns expected exception class or None."""
        if name == "translate":
            x, y, z = (list(args) + [0.0])[:3] if len(args) == 2 else args
            self.chain(_T((x, y, z)))
        elif name == "rotate":
            self.chain(rot(args[0], args[1] if len(args) > 1 else "z"))
        elif name == "scale":
            self.chain(scale(args))
        elif name == "reflect":
            self.chain(reflect(args[0]))
        elif name == "mirror":
            self.chain(reflect(PLANE_NORMAL[args[0] if args else "zx"]))
        elif name == "chain_transform":
            a = np.array(args[0], dtype=float)
            if a.shape != (4, 4):
                return ValueError
            self.chain(a)
        elif name == "set_pivot":
            self.cur.pivot = tuple(float(c) for c in args[0])
        elif name == "save_state":
            nm = args[0] if args else None
            if nm is not None and nm.strip():
                self.named[nm.strip()] = self.cur.clone()
            else:
                self.stack.append(self.cur.clone())
        elif name == "restore_state":
            nm = args[0] if args else None
            if nm is not None and nm.strip():
                if nm.strip() not in self.named:
                    return KeyError
                self.cur = self.named[nm.strip()].clone()
            else:
                if not self.stack:
                    return IndexError
                self.cur = self.stack.pop()
        elif name == "delete_state":
            if args[0] not in self.named:
                return KeyError
            del self.named[args[0]]
        else:
            raise ValueError(name)
        return None

    # -- queries ------------------------------------------------------------
    def apply(self, p):
        v = self.cur.M @ np.array([p[0], p[1], p[2], 1.0])
        return (float(v[0]), float(v[1]), float(v[2]))

    def linear(self, d):
        v = self.cur.M[:3, :3] @ np.array([d[0], d[1], d[2]])
        return (float(v[0]), float(v[1]), float(v[2]))

    def cond(self):
        return float(np.linalg.cond(self.cur.M[:3, :3]))

    def norm(self):
        return float(np.abs(self.cur.M).sum(axis=1).max())

    def couples_axes(self):
        L = self.cur.M[:3, :3]
        off = L - np.diag(np.diag(L))
        return bool(np.abs(off).max() > 1e-3)

    def is_identity(self):
        return bool(np.allclose(self.cur.M, np.eye(4), atol=1e-12))
