"""C04 — coordinate transforms are applied faithfully to every move.

Histories mixing transform operations (translate/rotate/scale/reflect/mirror
about any pivot, save/restore, current_transform() contexts) with partial-axis
moves, rapids and probes in both distance modes, small tracer paths and 'sync'
moves.  Oracle: own 4x4 matrix model; per emitted word, mention rule, and
end-to-end machine position == M . builder.position while synced.
"""

import math
from fractions import Fraction

from vf.runner import Violation, run_hypothesis
from vf.common import Session, ulp
from vf.matmodel import Model, affine_strategy
from vf import hist

ID = "C04"
LEVEL = "exploration"
SHARDS = {"quick": 8, "thorough": 16}
RULE = ("cases = (decimal places 4..8, list of <=25 ops: transform.translate/"
        "rotate(any angle, x|y|z)/scale(1-3 factors, |f| in 0.1..10, either "
        "sign)/reflect(normal)/mirror(plane)/set_pivot/save_state/"
        "restore_state, current_transform() contexts, move/rapid/probe on any "
        "axis subset, set_distance_mode, sync moves (absolute move naming all "
        "three axes), small tracer paths, set_axis/move_absolute/auto_home "
        "(which only break the sync)); non-trivial = a non-identity transform "
        "whose linear part couples axes (off-diagonal > 1e-3) with a partial-"
        "axis move, or a relative move under such a transform; distinct by SHA-1")
ASSUMPTIONS = [
    "model: M' = T(p).Op.T(-p).M with the pivot stored per transform state",
    "tolerance per word: U(dp) + 64*ulp(norm(M)*max|coordinate|); relative "
    "accumulation budget as in C01",
    "set_axis and the *_absolute bypass moves are documented to ignore the "
    "transform: they only lower the 'synced' flag",
    "tracer paths under a transform are judged per vertex by a differential "
    "run: the same request on a second builder without transform gives the "
    "vertices in builder coordinates (the 9-decimal reference run adds "
    "2e-9 x norm(M) of slack)",
]
TECHNIQUE = ("model-based property testing (Hypothesis histories) against an "
             "independent 4x4 affine model and the G-code interpreter")
LEVEL_TEXT = ("Generated histories of transform operations and moves judged "
              "per emitted word and end-to-end against an independently "
              "written matrix model; exploration with class counters.")


def op_strategy(depth=1, only_tr=False):
    from hypothesis import strategies as st
    c = st.one_of(hist.small_coord(), hist.small_coord(),
                  st.floats(min_value=-400, max_value=400, allow_nan=False),
                  st.integers(-5, 5).map(lambda k: k / 4.0))
    f = st.one_of(st.floats(min_value=0.1, max_value=10), st.floats(min_value=-10, max_value=-0.1),
                  st.sampled_from([2.0, 0.5, -1.0, 1.0]))
    ang = st.one_of(st.sampled_from([90.0, 45.0, 180.0, -90.0, 30.0, 360.0]),
                    st.floats(min_value=-720, max_value=720),
                    # weak coupling (bed-skew corrections): the induced change of an
                    # unrequested axis is small but far above the output resolution
                    st.floats(min_value=0.005, max_value=1.5),
                    st.floats(min_value=-1.5, max_value=-0.005))
    nv = st.lists(st.floats(min_value=-5, max_value=5), min_size=3, max_size=3).filter(
        lambda v: math.sqrt(sum(x * x for x in v)) > 0.1)
    T = lambda name, *a: {"op": "t", "name": name, "args": list(a)}
    tr = hist.equally(
        st.tuples(c, c, c).map(lambda t: T("translate", *t)),
        st.tuples(c, c).map(lambda t: T("translate", *t)),
        st.tuples(ang, st.sampled_from(["x", "y", "z"])).map(lambda t: T("rotate", *t)),
        ang.map(lambda a: T("rotate", a)),
        st.lists(f, min_size=1, max_size=3).map(lambda l: T("scale", *l)),
        # two EQUAL factors: still the two-argument form (Z untouched)
        f.map(lambda x: T("scale", x, x)),
        nv.map(lambda v: T("reflect", v)),
        st.sampled_from(["xy", "yz", "zx"]).map(lambda p: T("mirror", p)),
        st.tuples(c, c, c).map(lambda t: T("set_pivot", list(t))),
        st.just(T("save_state")), st.just(T("restore_state")),
        # any 4x4 matrix through the public chain_transform() (shears)
        affine_strategy().map(lambda m: T("chain_transform", m)),
    )
    if only_tr:
        return tr
    pt = hist.point_strategy(c)
    mv = hist.weighted(
        (5, st.fixed_dictionaries({"op": st.sampled_from(["move", "move", "rapid"]), "pt": pt,
                                   "form": st.sampled_from(["kw", "list", "point"])})),
        (1, st.fixed_dictionaries({"op": st.just("probe"), "mode": st.just("towards"), "pt": pt,
                                   "form": st.just("kw")})),
        (1, st.tuples(c, c, c).map(lambda t: {"op": "sync", "pt": {"x": t[0], "y": t[1], "z": t[2]}})),
        (2, st.sampled_from(["absolute", "relative"]).map(
            lambda m: {"op": "set_distance_mode", "mode": m})),
        # short single-axis step from wherever the head is
        (3, st.tuples(st.sampled_from(["x", "y", "z"]),
                      st.one_of(st.integers(-8, 8).map(lambda k: k / 4.0),
                                st.floats(min_value=-3, max_value=3))).map(
            lambda t: {"op": "nudge", "axis": t[0], "d": t[1]})),
        (3, st.fixed_dictionaries({"op": st.sampled_from(["set_axis", "move_absolute", "auto_home",
                                                          "rapid_absolute", "move_absolute"]),
                                   "pt": pt, "form": st.just("kw")})),
        (2, st.fixed_dictionaries({"op": st.just("shape"), "d": hist.shape_strategy(2),
                                   "dir": st.sampled_from(["cw", "ccw"])})),
        (1, st.just({"op": "other"})),
    )
    if depth <= 0:
        return hist.weighted((2, tr), (3, mv))
    inner = op_strategy(depth - 1)
    ctx = st.fixed_dictionaries({"op": st.just("tctx"),
                                 "body": st.lists(inner, max_size=4),
                                 "to_identity": st.sampled_from([False, False, True]),
                                 "raise": st.sampled_from([False, False, True, "base"])})
    # saved state, pivot moved, state restored, then a pivot-sensitive
    # transformation and a move: save/restore cover the pivot as well
    macro = st.tuples(st.tuples(c, c, c), ang, st.sampled_from(["x", "y", "z"]),
                      st.sampled_from(["rotate", "scale", "mirror"]), pt).map(
        lambda t: {"op": "tmacro", "ops": [
            T("save_state"), T("set_pivot", list(t[0])), T("restore_state"),
            (T("rotate", t[1], t[2]) if t[3] == "rotate" else
             T("scale", 2.0) if t[3] == "scale" else T("mirror", "yz")),
            {"op": "move", "pt": t[4] or {"x": 1.0}, "form": "kw"}]})
    # a frame saved outside a transform block, restored and modified inside it,
    # restored again after the block: the block must not have touched the stack
    macro2 = st.tuples(st.tuples(c, c, c), st.tuples(c, c, c), pt).map(
        lambda t: {"op": "tmacro", "ops": [
            T("translate", *t[0]), T("save_state"), T("scale", 2.0),
            {"op": "tctx", "body": [T("restore_state"), T("translate", *t[1])],
             "to_identity": False, "raise": False},
            T("restore_state"),
            {"op": "move", "pt": t[2] or {"x": 1.0}, "form": "kw"}]})
    # a point visited under an axis-coupling transform, the head repositioned by
    # a bypass move (or a re-zeroing), then a partial move back: every axis whose
    # machine coordinate has to change must be mentioned again
    macro3 = st.tuples(st.sampled_from([90.0, -90.0, 45.0, 30.0]),
                       st.integers(-20, 20).map(float), st.integers(-20, 20).map(float),
                       st.sampled_from(["rapid_absolute", "move_absolute", "set_axis"]),
                       st.sampled_from(["x", "y"])).map(
        lambda t: {"op": "tmacro", "ops": [
            T("rotate", t[0], "z"),
            {"op": "sync", "pt": {"x": t[1], "y": 0.0, "z": 0.0}},
            {"op": t[3], "pt": {"x": 0.0, "y": 0.0}, "form": "kw"},
            {"op": "set_distance_mode", "mode": "absolute"},
            {"op": "move", "pt": {t[4]: t[1] if t[4] == "x" else t[2]}, "form": "kw"},
            {"op": "move", "pt": {"x": t[1]}, "form": "kw"}]})
    return hist.weighted((4, tr), (6, mv), (1, ctx), (1, hist.equally(macro, macro2, macro3)))


class Runner:
    def __init__(self, case, cl):
        self.s = Session(dp=case["dp"])
        self.g = self.s.g
        self.m = Model()
        # a named state saved before any transformation (the identity), for
        # blocks that temporarily go back to machine coordinates
        self.g.transform.save_state("id0")
        self.m.apply_op("save_state", ["id0"])
        self.cl = cl
        self.synced = False
        self.maxc = 1.0
        self.t_ops = 0

    def eps(self):
        return Fraction(64 * ulp(max(1.0, self.m.norm()) * self.maxc))

    def run(self, ops):
        for op in ops:
            self.step(op)

    def step(self, op):
        g, s, m = self.g, self.s, self.m
        name = op["op"]
        if name == "t":
            mm = m.clone()
            expect = m.apply_op(op["name"], op["args"])
            try:
                if op["name"] == "chain_transform":
                    self.cl.add("chain_transform")
                    g.transform.chain_transform(__import__("numpy").array(op["args"][0], dtype=float))
                else:
                    getattr(g.transform, op["name"])(*op["args"])
                exc = None
            except Exception as e:
                exc = e
            if expect is None and exc is not None:
                raise Violation(f"transform.{op['name']}{tuple(op['args'])} raised "
                                f"{type(exc).__name__}: {exc}")
            if expect is not None and not isinstance(exc, expect):
                raise Violation(f"transform.{op['name']}{tuple(op['args'])}: expected "
                                f"{expect.__name__}, got {exc!r}")
            if m.cond() > 1e8:
                pass
            self.synced = False
            self.t_ops += 1
            return
        if name == "tmacro":
            self.cl.add("pivot_moved_between_save_and_restore")
            for sub in op["ops"]:
                self.step(sub)
            return
        if name == "other":
            from vf.statehist import other_builder_activity
            other_builder_activity()      # transforms ANOTHER builder, saves a named state there
            self.cl.add("other_builder_active")
            return
        if name == "tctx":
            saved = m.clone()
            try:
                with g.current_transform():
                    if op.get("to_identity"):
                        g.transform.restore_state("id0")
                        self.m.apply_op("restore_state", ["id0"])
                        self.cl.add("block_in_machine_coordinates")
                        self.synced = False      # the transform just changed
                        # e.g. a tool-change move in machine coordinates
                        self.step({"op": "nudge", "axis": "x", "d": 1.0})
                    self.run(op["body"])
                    if op["raise"]:
                        raise hist.boom(op["raise"])
            except (hist._Boom, hist._BoomBase):
                pass
            self.m = saved
            self.synced = False
            if op.get("to_identity"):
                # first move after the block: the outer transform is back in force
                self.step({"op": "nudge", "axis": "y", "d": 0.5})
            return
        if name == "set_distance_mode":
            g.set_distance_mode(op["mode"])
            s.poll()
            return
        if name in ("set_axis", "move_absolute", "rapid_absolute", "auto_home"):
            hist.exec_primitive(g, op)
            s.poll()
            if name in ("move_absolute", "rapid_absolute") and op["pt"]:
                # bypass moves go to the RAW machine target whatever transform
                # and distance mode are in force
                for ax, v in op["pt"].items():
                    mp = s.machine.pos[ax.upper()]
                    if mp is None or abs(float(mp) - float(v)) > float(s.U) + 1e-9 * (1 + abs(v)):
                        raise Violation(f"{op!r} under an active transform ("
                                        f"{'relative' if g.distance_mode.is_relative else 'absolute'}"
                                        f" mode): the machine ends at {ax.upper()}="
                                        f"{None if mp is None else float(mp)!r}, the bypass move "
                                        f"asked for {v!r}; last lines {[b[2] for b in s.blocks[-3:]]!r}")
                self.cl.add("bypass_move_under_transform")
            self.synced = False
            return
        if name == "shape":
            before = self.synced
            p0 = g.position.resolve()
            start = (float(p0.x), float(p0.y), float(p0.z))
            rel = g.distance_mode.is_relative
            try:
                hist.exec_primitive(g, op)
                rejected = False
            except ValueError:
                self.cl.add("shape_rejected")
                rejected = True
            lines = s.poll()
            if not rejected:
                self.check_shape_vertices(op, start, rel, lines)
            if before:
                self.cl.add("tracer_while_synced")
                self.check_synced(f"after {op!r}")
            return
        # move / rapid / probe / sync ------------------------------------
        if name == "nudge":
            p0 = g.position.resolve()
            k = "xyz".index(op["axis"])
            cur = float(p0[k])
            op = {"op": "move", "form": "kw",
                  "pt": {op["axis"]: op["d"] if g.distance_mode.is_relative else cur + op["d"]}}
            name = "move"
        if name == "sync":
            was_rel = g.distance_mode.is_relative
            if was_rel:
                g.set_distance_mode("absolute")
                s.poll()
            real = {"op": "move", "pt": op["pt"], "form": "kw"}
        else:
            real = op
        pos0 = g.position.resolve()
        o = (float(pos0.x), float(pos0.y), float(pos0.z))
        rel = g.distance_mode.is_relative
        req = real["pt"]
        for v in list(req.values()) + list(o):
            self.maxc = max(self.maxc, abs(float(v)))
        t = list(o)
        for ax, v in req.items():
            k = "xyz".index(ax)
            t[k] = o[k] + v if rel else v
        hist.exec_primitive(g, real)
        lines = s.poll()
        if len(lines) != 1:
            raise Violation(f"{real!r} emitted {len(lines)} lines")
        words = {w.letter: w for w in lines[0][0] if w.letter in "XYZ"}
        Mo, Mt = m.apply(o), m.apply(t)
        lin = m.linear([t[k] - o[k] for k in range(3)])
        tol = s.U + self.eps()
        coupled = m.couples_axes()
        if coupled and 0 < len(req) < 3:
            self.cl.add("partial_move_under_coupling_transform")
            small = [abs(float(Fraction(Mt[k]) - Fraction(Mo[k]))) for k in range(3)
                     if "xyz"[k] not in req]
            if any(4 * float(s.U) < v < 1e-5 * max(1.0, self.maxc) for v in small):
                self.cl.add("tiny_induced_change_on_unrequested_axis")
        if coupled and rel and req:
            self.cl.add("relative_move_under_coupling_transform")
        if not m.is_identity():
            self.cl.add("non_identity")
        for k, ax in enumerate("XYZ"):
            requested = ax.lower() in req
            change = Fraction(Mt[k]) - Fraction(Mo[k])
            if ax in words:
                exp = lin[k] if rel else Mt[k]
                if abs(words[ax].value - Fraction(exp)) > tol:
                    raise Violation(
                        f"{real!r} ({'relative' if rel else 'absolute'}) from {o}: word "
                        f"{ax}{words[ax].text} but the image of the requested "
                        f"{'displacement' if rel else 'target'} has {ax}={exp!r} "
                        f"(M={m.cur.M.tolist()})")
            else:
                if requested:
                    raise Violation(f"{real!r}: requested axis {ax} is not mentioned "
                                    f"in {lines[0][2]!r}")
                if abs(change) > 2 * s.U + 2 * self.eps():
                    raise Violation(
                        f"{real!r} from {o}: machine {ax} has to change by "
                        f"{float(change)!r} under the transform but {lines[0][2]!r} "
                        f"does not mention it (M={m.cur.M.tolist()})")
        if name == "probe":
            self.synced = False
        elif name == "sync":
            self.synced = True
            self.cl.add("sync_move")
            if was_rel:
                g.set_distance_mode("relative")
                s.poll()
        if self.synced:
            self.check_synced(f"after {real!r}")

    def check_shape_vertices(self, op, start, rel, lines):
        """Differential oracle for traced paths under a transform: the same
        request on a second builder WITHOUT transform gives the vertices in
        builder coordinates; every emitted word must be the image of the
        corresponding vertex (absolute) / of the step between vertices
        (relative) under the model matrix."""
        from vf import geom
        ref = Session(dp=9)
        rg = ref.g
        rg.set_axis(x=start[0], y=start[1], z=start[2])
        rg.set_distance_mode("relative" if rel else "absolute")
        rg.set_direction(self.g.state.direction.value)
        rg.set_resolution(self.g.state.resolution)
        ref.poll()
        try:
            hist.exec_primitive(rg, dict(op, dir=None, res=self.g.state.resolution))
        except ValueError:
            return
        verts = geom.vertices(ref.poll(), start, rel)
        moves = [(w, raw) for (w, c, raw) in lines]
        if len(moves) != len(verts):
            raise Violation(f"{op!r} under a transform emitted {len(moves)} moves, the same "
                            f"request without transform {len(verts)}")
        m, s = self.m, self.s
        prev = start
        for i, ((words, raw), v) in enumerate(zip(moves, verts)):
            for c in v:
                self.maxc = max(self.maxc, abs(c))
            exp = m.linear([v[k] - prev[k] for k in range(3)]) if rel else m.apply(v)
            tol = s.U + self.eps() + Fraction(2e-9 * max(1.0, m.norm()))
            for w in words:
                if w.letter in "XYZ":
                    k = "XYZ".index(w.letter)
                    if abs(w.value - Fraction(exp[k])) > tol:
                        raise Violation(
                            f"{op!r} segment #{i} {raw!r}: word {w!r} but the image of the "
                            f"{'step' if rel else 'vertex'} {v} under the transform has "
                            f"{w.letter}={exp[k]!r} (M={m.cur.M.tolist()})")
            prev = v
        if not m.is_identity() and len(verts) >= 3:
            self.cl.add("traced_path_under_transform_per_vertex")

    def check_synced(self, where):
        g, s, m = self.g, self.s, self.m
        p = g.position
        if any(c is None for c in p):
            self.synced = False
            return
        img = m.apply((float(p.x), float(p.y), float(p.z)))
        for k, ax in enumerate("XYZ"):
            mv = s.machine.pos[ax]
            if mv is None:
                raise Violation(f"{where}: machine {ax} unknown while synced")
            n = s.machine.rel_steps[ax]
            tol = (n + 1) * s.U + (n + 2) * self.eps()
            if abs(mv - Fraction(img[k])) > tol:
                raise Violation(
                    f"{where}: machine {ax}={float(mv)!r} but transform(position)"
                    f"={img[k]!r} (position {tuple(p)!r}, rel steps {n}, "
                    f"M={m.cur.M.tolist()})")
        self.cl.add("end_to_end_checked")


def run_case(case, cl=None):
    cl = set() if cl is None else cl
    Runner(case, cl).run(case["ops"])
    return cl


def replay(case):
    run_case(case)


NT = {"partial_move_under_coupling_transform", "relative_move_under_coupling_transform"}


def strategy(n):
    from hypothesis import strategies as st
    # most histories start with one or two transformations, so that the moves
    # that follow are judged under a non-trivial transform
    prefix = st.lists(op_strategy(only_tr=True), min_size=0, max_size=2)
    return st.fixed_dictionaries({"dp": st.integers(4, 8),
                                  "ops": st.tuples(prefix, st.lists(op_strategy(), min_size=2,
                                                                    max_size=n)).map(
                                      lambda t: t[0] + t[1])})


def run_shard(ctx):
    n = 300 if ctx.tier == "quick" else 20000

    def body(case):
        cl = run_case(case, set())
        ctx.case(case, nontrivial=bool(cl & NT), classes=sorted(cl),
                 steps=hist.count_ops([o if o["op"] != "tctx" else
                                       {"op": "ctx", "body": o["body"]} for o in case["ops"]]))

    run_hypothesis(ctx, strategy(25 if ctx.tier == "quick" else 40), body, n)
