"""C03 — configured bounds are never exceeded by an emitted command.

Histories with bounds set at the start and changed mid-history; every bounded
numeric argument is drawn *relative to the bound in force* (min, max, one ulp
outside, interior, far outside, NaN, +-inf).  Soundness is judged on the
emitted text (every word inside the limits in force, targets in the builder's
own coordinates); completeness on the call outcome (inside => accepted,
outside => ValueError), predicted by a small reference model.
"""

import math
from fractions import Fraction

from vf.runner import Violation, HarnessError, run_hypothesis
from vf.common import Session, ulp
from vf.machine import norm_code
from vf import statehist as sh
from vf import hist

ID = "C03"
LEVEL = "exploration"
SHARDS = {"quick": 8, "thorough": 16}
RULE = ("cases = list of <=25 ops: set_bounds (any of the seven properties, "
        "any min<max incl. ranges excluding 0 and boxes degenerate in one "
        "axis) at any point; move/rapid/move_absolute/rapid_absolute/probe/"
        "set_axis in both distance modes from partially known positions with "
        "F/S words, optionally through a move hook that returns a new parameter "
        "dict with F/S; set_feed_rate, set_tool_power, tool_on/power_on, "
        "tool_change, three temperature setters, three waiting halts with S or "
        "R; tracer shapes crossing the box; modal settings in between (feed "
        "mode incl. inverse time, extrusion mode, length/temperature/time units, "
        "plane); an axes box set so that the current position lies outside it; "
        "every bounded value drawn from "
        "{min, max, nextafter(min,-inf), nextafter(max,+inf), interior, far "
        "outside, NaN, +-inf, the value last given to that property (whatever "
        "limits were in force then)} of the bound in force; non-trivial = a value "
        "within 1 ulp of a bound, or NaN against a set bound, or a tracer path "
        "cut by the box, or a relative move from a partially unknown position "
        "with axes bounds set; distinct by SHA-1")
ASSUMPTIONS = [
    "builder coordinates = GCodeBuilder.position before the call (unknown "
    "axes read as 0 by move/rapid/probe, kept unknown by *_absolute)",
    "emitted words may differ from the validated float by the output "
    "rounding, so words are compared with the limits widened by half a unit "
    "of the last decimal place",
    "G28 words are relative to the end-stop trigger point and G92 words do "
    "not move the machine: neither is judged against the axes box",
    "completeness is judged only when no interlock applies to the call",
]
TECHNIQUE = ("model-based property testing (Hypothesis histories with "
             "boundary-aimed values) with soundness judged on the re-lexed "
             "output and completeness against a reference accept/reject model")
LEVEL_TEXT = ("Generated histories whose numeric arguments are aimed at the "
              "limits in force (exact bound, one ulp outside, NaN); output "
              "re-lexed independently; accept/reject predicted both ways. "
              "Exploration with class counters.")

SCALARS = ["bed-temperature", "chamber-temperature", "hotend-temperature",
           "feed-rate", "tool-number", "tool-power"]
KINDS = ["min", "max", "below", "above", "in", "in", "in", "far_lo", "far_hi",
         "nan", "nan", "inf", "-inf", "prev", "prev", "zero", "zero"]
# "zero" = exactly 0 (or -0.0): falsy in Python, the classic 'if value:' trap
# "prev" = the very value this property/axis was last given in this history
# (whatever limits were in force then): what a stale cache would let through
DEFAULT_RANGE = (0.0, 100.0)


PREV = {}


def resolve(vd, bounds, key=None):
    v = _resolve(vd, bounds, key)
    if key is not None:
        PREV[key] = v
    return v


def _resolve(vd, bounds, key):
    lo, hi = bounds if bounds is not None and bounds[0] is not None else DEFAULT_RANGE
    lo, hi = float(lo), float(hi)
    k = vd["k"]
    if k == "prev":
        if key in PREV:
            return PREV[key]
        k = "in"
    if k == "zero":
        return -0.0 if vd["t"] > 0.8 else 0.0
    if k == "min":
        return lo
    if k == "max":
        return hi
    if k == "below":
        return math.nextafter(lo, -math.inf)
    if k == "above":
        return math.nextafter(hi, math.inf)
    if k == "in":
        return lo + (hi - lo) * vd["t"]
    if k == "far_lo":
        return lo - (abs(hi - lo) + 1) * (1 + vd["t"])
    if k == "far_hi":
        return hi + (abs(hi - lo) + 1) * (1 + vd["t"])
    return float(k)


def inside(v, bounds):
    if isinstance(v, float) and math.isnan(v):
        return bounds is None or bounds[0] is None   # NaN never passes a *set* bound
    if bounds is None or bounds[0] is None:
        return True
    return bounds[0] <= v <= bounds[1]


def vdesc():
    from hypothesis import strategies as st
    return st.fixed_dictionaries({"k": st.sampled_from(KINDS),
                                  "t": st.floats(min_value=0.0, max_value=1.0)})


def vdesc_in():
    from hypothesis import strategies as st
    return st.fixed_dictionaries({"k": st.sampled_from(["min", "max", "in", "in"]),
                                  "t": st.floats(min_value=0.0, max_value=1.0)})


def op_strategy(only_bounds=False, only_modes=False, only_hook=False):
    from hypothesis import strategies as st
    num = st.one_of(st.integers(-200, 400).map(float),
                    st.floats(min_value=-500, max_value=5000, allow_nan=False),
                    st.sampled_from([0.0, 0.1, 10.0, 100.0, -10.0]))
    pair = st.tuples(num, num).filter(lambda t: t[0] != t[1]).map(lambda t: (min(t), max(t)))
    sb = st.tuples(st.sampled_from(SCALARS), pair).map(
        lambda t: {"op": "set_bounds", "name": t[0], "lo": t[1][0], "hi": t[1][1]})
    comp = st.one_of(st.integers(-50, 50).map(float), st.floats(min_value=-100, max_value=100))
    box = st.tuples(st.lists(comp, min_size=3, max_size=3),
                    st.lists(st.one_of(st.just(0.0), st.floats(min_value=0.0, max_value=80.0)),
                             min_size=3, max_size=3)).filter(
        lambda t: any(w > 0 for w in t[1])).map(
        lambda t: {"op": "set_bounds", "name": "axes", "lo": t[0],
                   "hi": [a + w for a, w in zip(t[0], t[1])]})
    vd = vdesc()
    aim = st.fixed_dictionaries({}, optional={"x": vd, "y": vd, "z": vd})
    aim_in = st.fixed_dictionaries({}, optional={"x": vdesc_in(), "y": vdesc_in(), "z": vdesc_in()})
    fs = st.fixed_dictionaries({}, optional={"F": vd, "S": vd})
    fs_in = st.fixed_dictionaries({}, optional={"F": vdesc_in(), "S": vdesc_in()})
    mvname = st.sampled_from(["move", "move", "rapid", "move_absolute", "rapid_absolute",
                              "probe", "set_axis"])
    # most moves have at most one offending value so that both outcomes occur
    motion = st.one_of(
        st.tuples(mvname, aim, fs_in), st.tuples(mvname, aim_in, fs),
        st.tuples(mvname, aim_in, fs_in), st.tuples(mvname, aim_in, fs_in)).map(
        lambda t: {"op": t[0], "aim": t[1], "fs": t[2] if t[0] != "set_axis" else {}})
    SCALAR_ALTS = (
        st.tuples(st.sampled_from(["set_feed_rate", "set_tool_power",
                                   "set_bed_temperature", "set_hotend_temperature",
                                   "set_chamber_temperature"]), vd).map(
            lambda t: {"op": t[0], "v": t[1]}),
        st.tuples(st.sampled_from(["tool_on", "power_on"]), vd).map(
            lambda t: {"op": t[0], "v": t[1]}),
        st.just({"op": "tool_off"}),
        st.tuples(st.sampled_from(["manual", "automatic"]), vd).map(
            lambda t: {"op": "tool_change", "mode": t[0], "v": t[1]}),
        st.tuples(st.sampled_from(["wait-for-bed", "wait-for-hotend", "wait-for-chamber"]),
                  st.sampled_from(["S", "R", "s", "r"]), vd).map(
            lambda t: {"op": "halt", "mode": t[0], "letter": t[1], "v": t[2]}),
        # both temperature words on one waiting halt (S: wait while heating,
        # R: wait always): each of them is a temperature word of the command
        st.tuples(st.sampled_from(["wait-for-bed", "wait-for-hotend", "wait-for-chamber"]),
                  st.sampled_from([("S", "R"), ("R", "S"), ("s", "R"), ("S", "r")]),
                  vdesc_in(), vd, st.booleans()).map(
            lambda t: {"op": "halt", "mode": t[0], "letter": t[1][0], "v": t[2] if t[4] else t[3],
                       "letter2": t[1][1], "v2": t[3] if t[4] else t[2]}),
    )
    MISC_ALTS = (
        st.sampled_from(["absolute", "relative"]).map(
            lambda m: {"op": "set_distance_mode", "mode": m}),
        st.one_of(st.none(), st.fixed_dictionaries({}, optional={"F": vd, "S": vd})).map(
            lambda sp: {"op": "hook", "spec": sp}),
        st.fixed_dictionaries({"op": st.just("auto_home"),
                               "axes": st.lists(st.sampled_from(["x", "y", "z"]),
                                                max_size=2, unique=True)}),
        st.fixed_dictionaries({"op": st.just("shape"), "d": hist.shape_strategy(),
                               "dir": st.sampled_from(["cw", "ccw"]),
                               "goto_center": st.booleans()}),
        # modal settings that must not change how limits are enforced (every
        # second one is a feed-mode switch: F words are bounded under each mode)
        st.sampled_from([("set_feed_mode", "1/time"), ("set_feed_mode", "units/rev"),
                         ("set_feed_mode", "units/min"), ("set_feed_mode", "1/time"),
                         ("set_feed_mode", "1/time"), ("set_feed_mode", "units/rev"),
                         ("set_feed_mode", "units/rev"), ("set_feed_mode", "1/time"),
                         ("set_feed_mode", "units/min"),
                         ("set_extrusion_mode", "relative"), ("set_extrusion_mode", "absolute"),
                         ("set_length_units", "inches"), ("set_length_units", "millimeters"),
                         ("set_temperature_units", "kelvin"), ("set_temperature_units", "celsius"),
                         ("set_time_units", "milliseconds"), ("set_plane", "zx"),
                         ("set_plane", "xy")]).map(
            lambda t: {"op": "mode", "call": t[0], "arg": t[1]}),
    )
    # an axes box set so that the CURRENT position lies outside it on one axis
    # (limits tightened while the head is parked outside): every later command
    # that keeps that axis where it is still targets a point outside the box
    excl = st.tuples(st.integers(0, 2), st.floats(min_value=0.5, max_value=20),
                     st.floats(min_value=1, max_value=40), st.booleans()).map(
        lambda t: {"op": "box_excluding_position", "axis": t[0], "gap": t[1], "w": t[2],
                   "below": t[3]})
    if only_modes:
        return MISC_ALTS[-1]
    if only_hook:
        return st.fixed_dictionaries({}, optional={"F": vd, "S": vd}).filter(bool).map(
            lambda sp: {"op": "hook", "spec": sp})
    if only_bounds:
        return st.one_of(sb, sb, sb, box)
    # (explicit weights, see hist.weighted)
    return hist.weighted((3, sb), (3, box), (9, motion), (5, hist.equally(*SCALAR_ALTS)),
                         (4, hist.equally(*MISC_ALTS[:-1])), (2, MISC_ALTS[-1]), (1, excl),
                         (1, st.just({"op": "other"})))


BOUND_OF = {"set_feed_rate": "feed-rate", "set_tool_power": "tool-power",
            "set_bed_temperature": "bed-temperature",
            "set_hotend_temperature": "hotend-temperature",
            "set_chamber_temperature": "chamber-temperature",
            "tool_on": "tool-power", "power_on": "tool-power",
            "tool_change": "tool-number",
            "wait-for-bed": "bed-temperature", "wait-for-hotend": "hotend-temperature",
            "wait-for-chamber": "chamber-temperature"}


def get_bounds(g, name):
    lo, hi = g.state.get_bounds(name)
    if lo is None:
        return None
    if name == "axes":
        return (tuple(float(c) for c in lo), tuple(float(c) for c in hi))
    return (lo, hi)


def near(v, b):
    if b is None or not isinstance(v, float) or not math.isfinite(v):
        return False
    return any(abs(v - e) <= 2 * ulp(e) for e in b)


def run_case(case, cl=None):
    cl = set() if cl is None else cl
    PREV.clear()
    s = Session(dp=case.get("dp", 6))
    g = s.g
    model = sh.InterlockModel()
    hook_state = {"on": None}
    # the limits in force, as configured by THIS history (nothing else may change them)
    MB = {n: None for n in SCALARS + ["axes"]}
    if case.get("lenient"):
        # a formatter that writes non-finite numbers instead of refusing them:
        # with every property bounded, NaN/inf must be stopped by the limits
        from gscrib.formatters import DefaultFormatter

        class Lenient(DefaultFormatter):
            def number(self, number):
                if not math.isfinite(float(number)):
                    return repr(float(number))
                return super().number(number)
        f = Lenient()
        f.set_decimal_places(case.get("dp", 6))
        f.set_line_endings("\\n")
        g.set_formatter(f)
        for n_, lo_, hi_ in (("axes", [-1e4] * 3, [1e4] * 3), ("feed-rate", 0.0, 1e6),
                             ("tool-power", 0.0, 1e6), ("tool-number", 1, 10 ** 6),
                             ("bed-temperature", -1e4, 1e4), ("hotend-temperature", -1e4, 1e4),
                             ("chamber-temperature", -1e4, 1e4)):
            g.set_bounds(n_, lo_, hi_)
            MB[n_] = get_bounds(g, n_)
        cl.add("formatter_that_writes_nan")

    def rewriting_hook(origin, target, params, state):
        """Returns a NEW parameter dict whose F/S come from the descriptor."""
        from gscrib.params import ParamsDict
        new = ParamsDict(params)
        spec = hook_state["on"]
        for letter, bname in (("F", "feed-rate"), ("S", "tool-power")):
            if spec.get(letter) is not None:
                new[letter] = resolve(spec[letter], get_bounds(g, bname), "hook" + letter)
        return new
    U = s.U
    for i, op in enumerate(case["ops"]):
        name = op["op"]
        where = f"op #{i} {op!r}"
        if name == "set_bounds":
            before_b = get_bounds(g, op["name"])
            try:
                g.set_bounds(op["name"], op["lo"], op["hi"])
                rejected = False
            except (ValueError, TypeError):
                cl.add("set_bounds_rejected")
                rejected = True
            # the limits in force are what the caller configured: a rejected
            # set_bounds() leaves the earlier limits of that property in force
            after_b = get_bounds(g, op["name"])
            if rejected and after_b != before_b:
                raise Violation(f"{where}: the rejected set_bounds() changed the limits of "
                                f"{op['name']!r} from {before_b!r} to {after_b!r}")
            if not rejected:
                MB[op["name"]] = after_b
                want = ((tuple(float(c) for c in op["lo"]), tuple(float(c) for c in op["hi"]))
                        if op["name"] == "axes" else (op["lo"], op["hi"]))
                if after_b is None or tuple(after_b[0] if op["name"] == "axes" else [after_b[0]]) != \
                        tuple(want[0] if op["name"] == "axes" else [want[0]]) or \
                        tuple(after_b[1] if op["name"] == "axes" else [after_b[1]]) != \
                        tuple(want[1] if op["name"] == "axes" else [want[1]]):
                    raise Violation(f"{where}: limits of {op['name']!r} read back as {after_b!r}")
            continue
        if name == "box_excluding_position":
            from vf.common import box_excluding_position
            box_excluding_position(g, op)
            MB["axes"] = get_bounds(g, "axes")
            cl.add("box_set_with_position_outside")
            continue
        if name == "set_distance_mode":
            g.set_distance_mode(op["mode"])
            s.poll()
            continue
        if name == "mode":
            getattr(g, op["call"])(op["arg"])
            s.poll()
            cl.add("mode:" + op["call"][4:] + "=" + op["arg"])
            continue
        if name == "auto_home":
            try:
                g.auto_home(**{a: 0 for a in op["axes"]})
            except ValueError:
                # a remaining known axis lies outside a box that was set
                # later: outcome not prescribed by the property
                cl.add("auto_home_rejected")
            s.poll()
            continue
        if name == "hook":
            g.remove_hook(rewriting_hook)
            hook_state["on"] = None
            if op.get("spec") is not None:
                hook_state["on"] = op["spec"]
                g.add_hook(rewriting_hook)
                cl.add("rewriting_hook_installed")
            continue
        if name == "tool_off":
            g.tool_off()
            model.commit({"op": "tool_off"})
            s.poll()
            continue
        if name == "other":
            from vf.statehist import other_builder_activity
            other_builder_activity()     # ANOTHER builder gets its own (different) limits
            cl.add("other_builder_with_other_limits")
            continue
        B = {n: get_bounds(g, n) for n in SCALARS + ["axes"]}
        for n_ in B:
            if B[n_] != MB[n_]:
                raise Violation(f"{where}: the limits of {n_!r} read {B[n_]!r} although this "
                                f"history configured {MB[n_]!r} (no set_bounds on this builder "
                                "in between)")
        pos0 = tuple(g.position)
        rel = g.distance_mode.is_relative
        if name == "shape":
            if op.get("goto_center") and B["axes"] is not None:
                # start the path from inside the box so that it can be cut by it
                c = [(a + b) / 2 for a, b in zip(*B["axes"])]
                try:
                    g.move_absolute(x=c[0], y=c[1], z=c[2])
                except ValueError:
                    pass
                check_lines(s.poll(), B, pos0, rel, U, where)
                pos0 = tuple(g.position)
            if B["axes"] is not None:
                cl.add("tracer_with_box")
            try:
                hist.exec_primitive(g, op)
                exc = None
            except Exception as e:
                exc = e
            lines = s.poll()
            n_moves = check_lines(lines, B, pos0, rel, U, where)
            if exc is not None and n_moves > 0 and B["axes"] is not None \
                    and isinstance(exc, ValueError) and "bounds" in str(exc):
                cl.add("tracer_cut_by_box")
            continue

        # ---- build the call and the prediction --------------------------
        must_reject, judged = [], True
        interlock = model.reasons({"op": name}) if name in (
            "tool_on", "power_on", "tool_change", "halt") else set()
        kw, args = {}, []
        if name in ("move", "rapid", "move_absolute", "rapid_absolute", "probe", "set_axis"):
            o = [0.0 if c is None else float(c) for c in pos0]
            box = B["axes"]
            T = list(pos0) if name in ("move_absolute", "rapid_absolute", "set_axis") \
                else list(o)
            for ax, vd in op["aim"].items():
                k = "xyz".index(ax)
                a = resolve(vd, None if box is None else (box[0][k], box[1][k]), "axis" + ax)
                if rel and name in ("move", "rapid", "probe"):
                    d = a - o[k]
                    kw[ax] = d
                    T[k] = o[k] + d
                else:
                    kw[ax] = a
                    T[k] = a
                if not math.isfinite(kw[ax]):
                    must_reject.append(f"non-finite {ax}")
                if box is not None and near(T[k], (box[0][k], box[1][k])):
                    cl.add("coordinate_within_1ulp_of_bound")
            if box is not None:
                for k in range(3):
                    if T[k] is None:
                        continue
                    if not inside(T[k], (box[0][k], box[1][k])):
                        must_reject.append(f"target {'xyz'[k]}={T[k]!r} outside "
                                           f"[{box[0][k]!r}, {box[1][k]!r}]")
                if rel and any(c is None for c in pos0) and name in ("move", "rapid", "probe"):
                    cl.add("relative_move_from_partially_unknown_with_box")
            for letter, vd in op["fs"].items():
                bname = "feed-rate" if letter == "F" else "tool-power"
                v = resolve(vd, B[bname], bname)
                kw[letter] = v
                if not inside(v, B[bname]):
                    must_reject.append(f"{letter}={v!r} outside {B[bname]!r}")
                    if math.isnan(v):
                        cl.add("nan_against_set_bound")
                if not (math.isfinite(v) and v >= 0):
                    must_reject.append(f"{letter}={v!r} invalid")
                if near(v, B[bname]):
                    cl.add("value_within_1ulp_of_bound")
            if name == "probe":
                args = ["towards"]
            if name == "set_axis":
                judged = False       # G92 does not move: outcome not prescribed
            if hook_state["on"] is not None and name in ("move", "move_absolute"):
                judged = False       # effective F/S are the hook's: judged on the output
                cl.add("move_with_rewriting_hook")
        elif name in ("set_feed_rate", "set_tool_power", "tool_on", "power_on",
                      "set_bed_temperature", "set_hotend_temperature",
                      "set_chamber_temperature"):
            bname = BOUND_OF[name]
            v = resolve(op["v"], B[bname], bname)
            if name == "tool_on":
                args = ["cw", v]
            elif name == "power_on":
                args = ["constant", v]
            else:
                args = [v]
            if not inside(v, B[bname]):
                must_reject.append(f"{v!r} outside {B[bname]!r}")
                if math.isnan(v):
                    cl.add("nan_against_set_bound")
            if not math.isfinite(v):
                must_reject.append("non-finite")
            if bname in ("feed-rate", "tool-power") and not v >= 0:
                must_reject.append("negative")
            if near(v, B[bname]):
                cl.add("value_within_1ulp_of_bound")
        elif name == "tool_change":
            b = B["tool-number"]
            v = resolve(op["v"], b, "tool-number")
            n = int(v) if math.isfinite(v) else 0
            if op["v"]["k"] in ("min", "below") and b is not None:
                n = math.ceil(b[0]) if op["v"]["k"] == "min" else math.ceil(b[0]) - 1
            if op["v"]["k"] in ("max", "above") and b is not None:
                n = math.floor(b[1]) if op["v"]["k"] == "max" else math.floor(b[1]) + 1
            args = [op["mode"], n]
            if not inside(n, b):
                must_reject.append(f"T{n} outside {b!r}")
            if n < 1:
                must_reject.append("tool number < 1")
        elif name == "halt":
            bname = BOUND_OF[op["mode"]]
            v = resolve(op["v"], B[bname], bname)
            args = [op["mode"]]
            kw = {op["letter"]: v}
            if not inside(v, B[bname]):
                must_reject.append(f"{v!r} outside {B[bname]!r}")
                if math.isnan(v):
                    cl.add("nan_against_set_bound")
            if not math.isfinite(v):
                must_reject.append("non-finite")
            if near(v, B[bname]):
                cl.add("value_within_1ulp_of_bound")
            if op.get("letter2"):
                v2 = resolve(op["v2"], B[bname], bname + "2")
                kw[op["letter2"]] = v2
                cl.add("halt_with_S_and_R")
                if not inside(v2, B[bname]):
                    must_reject.append(f"{op['letter2']}={v2!r} outside {B[bname]!r}")
                if not math.isfinite(v2):
                    must_reject.append("non-finite")
        else:
            raise HarnessError("unknown op " + name)

        b0 = len(s.rec.data)
        try:
            getattr(g, name)(*args, **kw)
            exc = None
        except Exception as e:
            exc = e
        call = f"{name}(*{args!r}, **{kw!r}) at position {pos0!r} " \
               f"({'relative' if rel else 'absolute'})"
        if exc is None:
            model.commit({"op": name})
            cl.add("accepted")
            if must_reject and judged:
                raise Violation(f"{where}: {call} was accepted although "
                                f"{must_reject}; bounds={B!r}; emitted "
                                f"{bytes(s.rec.data[b0:])!r}")
        else:
            cl.add("rejected")
            # whatever a rejected call may have written is judged by
            # check_lines below like any other output (atomicity is C05's)
            if judged and not must_reject and not interlock:
                raise Violation(f"{where}: {call} raised {type(exc).__name__}: {exc} "
                                f"although every value is inside the limits "
                                f"(inclusive); bounds={B!r}")
            if must_reject and not interlock and not isinstance(exc, ValueError):
                raise Violation(f"{where}: {call} raised {type(exc).__name__} "
                                f"instead of ValueError: {exc}")
        lines = s.poll()
        check_lines(lines, B, pos0, rel, U, where)
    return cl


def check_lines(lines, B, pos0, rel, U, where):
    """Soundness over the emitted text with the limits B in force."""
    p = [None if c is None else Fraction(float(c)) for c in pos0]
    steps = 0
    n_moves = 0
    box = B["axes"]
    for words, comments, raw in lines:
        codes = [norm_code(w) for w in words if w.letter in ("G", "M")]
        params = {w.letter: w for w in words if w.letter not in ("G", "M")}
        motion = [c for c in codes if c in ("G0", "G1") or c.startswith("G38.")]
        if "G90" in codes:
            rel = False
        if "G91" in codes:
            rel = True
        if motion:
            n_moves += 1
            steps += 1
            for k, ax in enumerate("XYZ"):
                if ax not in params:
                    continue
                w = params[ax].value
                if rel:
                    base = p[k] if p[k] is not None else Fraction(0)
                    tgt = base + w
                else:
                    tgt = w
                if not motion[0].startswith("G38"):
                    p[k] = tgt
                if box is not None:
                    tol = U * (steps + 1) + Fraction(8 * ulp(float(tgt)) * (steps + 1))
                    if not (Fraction(box[0][k]) - tol <= tgt <= Fraction(box[1][k]) + tol):
                        raise Violation(f"{where}: emitted {raw!r} targets {ax}="
                                        f"{float(tgt)!r} outside the axes box "
                                        f"[{box[0][k]!r}, {box[1][k]!r}]")
        temp = {"M104": "hotend-temperature", "M109": "hotend-temperature",
                "M140": "bed-temperature", "M190": "bed-temperature",
                "M141": "chamber-temperature", "M191": "chamber-temperature"}
        tcode = next((c for c in codes if c in temp), None)
        if "F" in params:
            _word_in(params["F"], B["feed-rate"], U, "F", raw, where)
        if tcode is not None:
            for l in ("S", "R"):
                if l in params:
                    _word_in(params[l], B[temp[tcode]], U, l + " (" + temp[tcode] + ")", raw, where)
        elif "S" in params and "M106" not in codes:
            _word_in(params["S"], B["tool-power"], U, "S", raw, where)
        if "T" in params and "M6" in codes:
            _word_in(params["T"], B["tool-number"], U, "T", raw, where)
    return n_moves


def _word_in(word, b, U, what, raw, where):
    if b is None:
        return
    v = word.value
    if not (Fraction(b[0]) - U <= v <= Fraction(b[1]) + U):
        raise Violation(f"{where}: emitted {raw!r} carries {what}={float(v)!r} "
                        f"outside [{b[0]!r}, {b[1]!r}]")


NT = {"coordinate_within_1ulp_of_bound", "value_within_1ulp_of_bound",
      "nan_against_set_bound", "tracer_cut_by_box",
      "relative_move_from_partially_unknown_with_box"}


def replay(case):
    run_case(case)


def strategy(n):
    from hypothesis import strategies as st
    return st.fixed_dictionaries({
        "dp": st.sampled_from([3, 5, 6, 9]),
        "lenient": st.sampled_from([False, False, False, True]),
        # limits first, then (half of the cases) one or two modal settings, so
        # that whole histories run under a non-default feed mode / unit system
        "ops": st.tuples(st.lists(op_strategy(only_bounds=True), max_size=6),
                         st.lists(op_strategy(only_modes=True), max_size=2),
                         # a third of the cases: a rewriting move hook from the start
                         st.sampled_from([0, 0, 1]).flatmap(
                             lambda k: st.lists(op_strategy(only_hook=True), min_size=k, max_size=k)),
                         st.lists(op_strategy(), min_size=1, max_size=n)).map(
            lambda t: t[0] + t[1] + t[2] + t[3])})


def run_shard(ctx):
    n = 350 if ctx.tier == "quick" else 15000

    def body(case):
        cl = run_case(case, set())
        ctx.case(case, nontrivial=bool(cl & NT), classes=sorted(cl),
                 steps=len(case["ops"]))

    run_hypothesis(ctx, strategy(25 if ctx.tier == "quick" else 40), body, n)
