"""C13 — transform states are saved, restored and inverted exactly.

Histories on the builder's CoordinateTransformer (translate/rotate/scale/
reflect/mirror/set_pivot/save/restore/delete, nested current_transform() and
named_transform(name) contexts whose bodies may raise) compared after every
step with an independent matrix model that has value semantics.
"""

import math

from vf.runner import Violation, run_hypothesis
from vf.matmodel import Model, affine_strategy
from vf import hist

ID = "C13"
LEVEL = "exploration"
SHARDS = {"quick": 8, "thorough": 16}
RULE = ("cases = (4 probe points, list of <=30 ops: translate, rotate(any "
        "angle, axis), scale(1-3 factors, 0.1<=|f|<=10), reflect(normal), "
        "mirror(plane), set_pivot, save_state()/save_state(name), "
        "restore_state()/restore_state(name), delete_state(name), "
        "current_transform()/named_transform(name) contexts nested <=3 whose "
        "body may end in a raised exception); at the end the remaining stack "
        "is popped and compared level by level; non-trivial = a named state "
        "restored >=2 times with a modification in between, or a context body "
        "that raises; distinct by SHA-1")
ASSUMPTIONS = [
    "tolerance 1e-9*(1+|p|)*max(1,cond(M)) on probe points; <=14 chained "
    "operations with bounded scale factors keep the condition number small",
    "state names are plain identifiers (save_state strips names, "
    "delete_state does not: whitespace-padded names are outside the domain)",
    "named states are not reverted by the transform contexts (only the "
    "current transform and the stack are, as documented)",
]
TECHNIQUE = ("model-based property testing (Hypothesis histories) against an "
             "independent matrix model with value semantics")
LEVEL_TEXT = ("Generated histories over the transformer API compared step by "
              "step with an independent model on random probe points, "
              "including stack depth/content at the end; exploration.")

NAMES = ["a", "b", "c"]


def op_strategy(depth=2):
    from hypothesis import strategies as st
    c = hist.small_coord()
    f = st.one_of(st.floats(min_value=0.1, max_value=10), st.floats(min_value=-10, max_value=-0.1),
                  st.sampled_from([2.0, 0.5, -1.0]))
    ang = st.one_of(st.sampled_from([90.0, 45.0, 180.0, -90.0, 30.0]),
                    st.floats(min_value=-720, max_value=720))
    nv = st.lists(st.floats(min_value=-5, max_value=5), min_size=3, max_size=3).filter(
        lambda v: math.sqrt(sum(x * x for x in v)) > 0.1)
    nm = st.sampled_from(NAMES)
    T = lambda name, *a: {"op": name, "args": list(a)}
    geo = hist.equally(
        st.tuples(c, c, c).map(lambda t: T("translate", *t)),
        st.tuples(ang, st.sampled_from(["x", "y", "z"])).map(lambda t: T("rotate", *t)),
        st.lists(f, min_size=1, max_size=3).map(lambda l: T("scale", *l)),
        f.map(lambda x: T("scale", x, x)),
        nv.map(lambda v: T("reflect", v)),
        st.sampled_from(["xy", "yz", "zx"]).map(lambda p: T("mirror", p)),
        st.tuples(c, c, c).map(lambda t: T("set_pivot", list(t))),
        # pivots whose coordinates cancel out (x + y + z = 0) are not the origin
        st.tuples(c, c).map(lambda t: T("set_pivot", [t[0], -t[0], 0.0] if t[1] < 0
                                        else [t[0], t[1], -(t[0] + t[1])])),
        # the public escape hatch: any 4x4 matrix (shears are only reachable
        # this way); a 3x3 matrix must be refused with ValueError
        affine_strategy().map(lambda m: T("chain_transform", m)),
        st.just(T("chain_transform", [[1.0, 0.0, 0.0], [0.0, 1.0, 0.0], [0.0, 0.0, 1.0]])),
    )
    state = st.one_of(
        st.just(T("save_state")), st.just(T("restore_state")),
        nm.map(lambda n: T("save_state", n)), nm.map(lambda n: T("restore_state", n)),
        nm.map(lambda n: T("restore_state", n)), nm.map(lambda n: T("delete_state", n)),
    )
    # a name saved again after only the pivot (or nothing) changed, then used:
    # "nothing new to save" shortcuts must compare the whole state
    resave = st.tuples(nm, st.tuples(c, c, c), st.tuples(c, c, c), ang,
                       st.sampled_from(["x", "y", "z"]), st.booleans()).map(
        lambda t: {"op": "macro", "ops": [
            T("save_state", t[0]), T("set_pivot", list(t[1])), T("save_state", t[0])]
            + ([T("set_pivot", list(t[2]))] if t[5] else [T("translate", *t[2])])
            + [T("restore_state", t[0]), T("rotate", t[3], t[4])]})
    # a named restore, an anonymous pop to another transform, the same named
    # restore again: "already in effect" shortcuts must notice the pop
    again = st.tuples(nm, st.tuples(c, c, c)).map(
        lambda t: {"op": "macro", "ops": [
            T("save_state", t[0]), T("translate", *t[1]), T("save_state"),
            T("restore_state", t[0]), T("restore_state"), T("restore_state", t[0])]})
    state = hist.weighted((8, state), (1, st.just({"op": "other", "args": []})), (1, resave),
                          (1, again))
    if depth <= 0:
        return hist.weighted((1, geo), (1, state))
    inner = op_strategy(depth - 1)
    ctx = st.one_of(
        st.fixed_dictionaries({"op": st.just("ctx"), "kind": st.just("current"),
                               "body": st.lists(inner, max_size=4),
                               "raise": st.sampled_from([False, False, True, "base"])}),
        st.fixed_dictionaries({"op": st.just("ctx"), "kind": st.just("named"), "name": nm,
                               "body": st.lists(inner, max_size=4),
                               "raise": st.sampled_from([False, False, True, "base"])}))
    return hist.weighted((4, geo), (5, state), (1, ctx))


class Runner:
    def __init__(self, case, cl):
        import gscrib
        self.g = gscrib.GCodeBuilder()
        self.t = self.g.transform
        self.m = Model()
        self.pts = [tuple(p) for p in case["pts"]]
        self.cl = cl
        self.geo_ops = 0
        self.named_restores = {}     # name -> [count, modified_since_last_restore]

    def tol(self, p):
        k = max(1.0, self.m.cond())
        return 1e-9 * (1 + max(abs(c) for c in p)) * k * max(1.0, self.m.norm())

    def compare(self, where):
        for p in self.pts:
            got = tuple(self.t.apply_transform(p))
            exp = self.m.apply(p)
            tol = self.tol(p)
            if any(abs(a - b) > tol for a, b in zip(got, exp)):
                raise Violation(f"{where}: apply_transform({p}) = {got}, model says {exp} "
                                f"(tol {tol:.2e})")
            back = tuple(self.t.reverse_transform(got))
            if any(abs(a - b) > tol * 10 for a, b in zip(back, p)):
                raise Violation(f"{where}: reverse_transform(apply_transform({p})) = {back}")

    def run(self, ops):
        for op in ops:
            self.step(op)

    def step(self, op):
        t, m = self.t, self.m
        name = op["op"]
        if name == "ctx":
            entry = m.clone()
            if op["kind"] == "current":
                cm = self.g.current_transform()
                expect_enter = None
            else:
                cm = self.g.named_transform(op["name"])
                expect_enter = None if op["name"] in m.named else KeyError
            try:
                with cm:
                    if expect_enter is not None:
                        raise Violation(f"named_transform({op['name']!r}) entered although "
                                        "the state does not exist")
                    if op["kind"] == "named":
                        m.cur = m.named[op["name"]].clone()
                        self.note_restore(op["name"])
                    self.compare(f"inside {op['kind']} context")
                    self.run(op["body"])
                    if op["raise"]:
                        self.cl.add("context_body_raises")
                        if op["raise"] == "base":
                            self.cl.add("context_body_raises_BaseException")
                        raise hist.boom(op["raise"])
            except (hist._Boom, hist._BoomBase):
                pass
            except KeyError:
                if expect_enter is None:
                    raise Violation(f"{op['kind']} context raised KeyError unexpectedly")
                self.compare("after failed named_transform entry")
                return
            m.cur, m.stack = entry.cur, entry.stack
            self.compare(f"after leaving {op['kind']} context"
                         f"{' (body raised)' if op['raise'] else ''}")
            return
        if name == "macro":
            self.cl.add("name_saved_again_after_pivot_change")
            for sub in op["ops"]:
                self.step(sub)
            return
        if name == "other":
            from vf.statehist import other_builder_activity
            o = other_builder_activity()
            for nm in NAMES:               # same state names on the other transformer
                o.transform.save_state(nm)
            o.transform.rotate(33.0, "x")
            self.cl.add("other_transformer_active")
            self.compare("after another builder's transformer was used")
            return
        args = op["args"]
        pivot_check = None
        if name in ("rotate", "scale"):
            q = m.cur.pivot
            inv = __import__("numpy").linalg.inv(m.cur.M)
            pre = inv @ __import__("numpy").array([q[0], q[1], q[2], 1.0])
            pivot_check = (q, (float(pre[0]), float(pre[1]), float(pre[2])))
        expect = m.apply_op(name, args)
        try:
            if name == "chain_transform":
                self.cl.add("chain_transform")
                t.chain_transform(__import__("numpy").array(args[0], dtype=float))
            else:
                getattr(t, name)(*args)
            exc = None
        except Exception as e:
            exc = e
        call = f"{name}{tuple(args)}"
        if expect is None and exc is not None:
            raise Violation(f"{call} raised {type(exc).__name__}: {exc}")
        if expect is not None:
            if not isinstance(exc, expect):
                raise Violation(f"{call}: expected {expect.__name__}, got {exc!r}")
            self.cl.add("expected_" + expect.__name__)
        if name in ("translate", "rotate", "scale", "reflect", "mirror", "chain_transform"):
            self.geo_ops += 1
            for v in self.named_restores.values():
                v[1] = True
        if name == "restore_state" and args and expect is None:
            self.note_restore(args[0])
        self.compare(f"after {call}")
        if pivot_check and exc is None:
            q, pre = pivot_check
            got = tuple(t.apply_transform(pre))
            tol = self.tol(q) * 10
            if any(abs(a - b) > tol for a, b in zip(got, q)):
                raise Violation(f"after {call} about pivot {q}: the point that mapped to "
                                f"the pivot now maps to {got}")

    def note_restore(self, name):
        v = self.named_restores.setdefault(name, [0, False])
        if v[0] >= 1 and v[1]:
            self.cl.add("named_state_restored_again_after_modification")
        v[0] += 1
        v[1] = False

    def finish(self):
        # the table of named states, name by name
        for nm in NAMES:
            self.step({"op": "restore_state", "args": [nm]})
        depth = 0
        while self.m.stack:
            self.m.apply_op("restore_state", [])
            try:
                self.t.restore_state()
            except IndexError:
                raise Violation(f"stack shorter than expected: restore_state() raised "
                                f"IndexError with {len(self.m.stack) + 1} level(s) still "
                                "expected")
            depth += 1
            self.compare(f"final unwinding, level {depth}")
        try:
            self.t.restore_state()
        except IndexError:
            return
        raise Violation("stack deeper than expected: restore_state() succeeded on "
                        "what should be an empty stack")


def run_case(case, cl=None):
    cl = set() if cl is None else cl
    r = Runner(case, cl)
    # keep conditioning bounded: stop issuing geometry after 14 chained ops
    ops = case["ops"]
    r.run(ops)
    r.finish()
    return cl


def replay(case):
    run_case(case)


NT = {"named_state_restored_again_after_modification", "context_body_raises"}


def strategy(n):
    from hypothesis import strategies as st
    c = hist.small_coord()
    return st.fixed_dictionaries({
        "pts": st.lists(st.tuples(c, c, c), min_size=4, max_size=4),
        "ops": st.lists(op_strategy(), min_size=1, max_size=n)})


def run_shard(ctx):
    n = 400 if ctx.tier == "quick" else 15000

    def body(case):
        cl = run_case(case, set())
        ctx.case(case, nontrivial=bool(cl & NT), classes=sorted(cl),
                 steps=hist.count_ops(case["ops"]))

    run_hypothesis(ctx, strategy(20 if ctx.tier == "quick" else 30), body, n)
