"""C07 — reported machine state mirrors the emitted program.

Histories over the full state-tracked API with valid arguments; after every
call the independent modal interpreter's view of the emitted lines is compared
with every public property of GCodeBuilder.state (vf/statehist.compare_state).
"""

from vf.runner import Violation, run_hypothesis
from vf.common import Session, apply_call
from vf import statehist as sh
from vf import hist

ID = "C07"
LEVEL = "exploration"
SHARDS = {"quick": 8, "thorough": 16}
RULE = ("cases = (decimal places 3..9, list of <=30 calls over tool_on/off, "
        "power_on/off, coolant, tool_change, every halt mode (S/R in either "
        "case), pause/stop/wait/emergency_halt, moves/rapids/*_absolute/probes "
        "with F/S/E/A/P words, set_axis/auto_home with extra axes, mode/unit/"
        "plane setters, temperatures, a move hook that rewrites F/S and returns a "
        "new parameter dict (installed/removed along the way), absolute_mode()/"
        "relative_mode() contexts around sub-histories (state compared inside "
        "the body too), earlier calls repeated verbatim (value coincidences), with values from the grid {0,0.5,1,60,"
        "100,1000,12345.678} plus random finite values); non-trivial = >=3 "
        "different state-changing call kinds and a value overwritten through a "
        "second path (S via a move/probe after tool_on/power_on, F via probe "
        "or *_absolute, temperature via a waiting halt); distinct by SHA-1")
ASSUMPTIONS = [
    "numeric arguments are valid (invalid ones belong to C05); interlock "
    "rejections are allowed and must leave state and output in agreement",
    "tool power is compared only while the tool runs (M05 leaves S modal on a "
    "machine while the builder zeroes its figure)",
    "X/Y/Z are C01's business; only non-axis letters are compared with "
    "get_parameter",
    "S/R words on non-temperature halts are not generated (their meaning is "
    "controller specific)",
]
TECHNIQUE = ("model-based property testing (Hypothesis call histories) with an "
             "independent modal G-code interpreter as state oracle")
LEVEL_TEXT = ("Generated call histories; after each call the state object is "
              "compared field by field with an independently written modal "
              "interpreter of the emitted text. Exploration with measured "
              "class coverage.")


def run_case(case, cl=None):
    cl = set() if cl is None else cl
    s = Session(dp=case["dp"])
    model = sh.InterlockModel()
    kinds = set()

    def rewriting_hook(origin, target, params, state):
        """A feed limiter / power scaler that returns a NEW parameter dict."""
        from gscrib.params import ParamsDict
        new = ParamsDict(params)
        if new.get("F") is not None:
            new["F"] = min(new["F"], 600.0)
        if new.get("S") is not None:
            new["S"] = new["S"] / 2.0
        new["Q"] = 3.25
        return new

    hooked = bool(case.get("hook0"))
    if hooked:
        s.g.add_hook(rewriting_hook)
    for name, lo, hi in case.get("limits") or ():
        # limits in force: calls get rejected mid-history, and a rejected call
        # must leave the state in step with the program as well
        s.g.set_bounds(name, lo, hi)
        cl.add("limits_in_force")
    src = []
    for call in case["calls"]:      # "repeat": an earlier call is issued again, verbatim
        if call["op"] == "repeat":
            prior = [c for c in src if c["op"] not in ("hook", "ctx")]
            if prior:
                src.append(prior[-1 - call["back"] % len(prior)])
                cl.add("earlier_call_repeated")
            continue
        if call["op"] == "sibling":
            # an earlier call issued again through a SIBLING command with the very
            # same arguments (other heater, other tool API, other coolant mode):
            # statements must not be remembered by their arguments alone
            prior = [c for c in src if c["op"] in SIBLINGS or
                     (c["op"] == "halt" and c.get("args", [None])[0] in HALT_SIBLINGS)]
            if prior:
                c = prior[-1 - call["back"] % len(prior)]
                if c["op"] == "halt":
                    c2 = dict(c, args=[HALT_SIBLINGS[c["args"][0]]] + list(c["args"][1:]))
                elif c["op"] == "coolant_on":
                    c2 = dict(c, args=["flood" if c["args"][0] == "mist" else "mist"])
                else:
                    c2 = dict(c, op=SIBLINGS[c["op"]])
                    if c["op"] in ("tool_on", "power_on"):
                        c2["args"] = [("cw" if c["op"] == "power_on" else "constant")] + \
                            list(c["args"][1:])
                src.append(c2)
                cl.add("sibling_command_same_arguments")
            continue
        src.append(call)
    calls = []
    for call in src:      # flatten contexts into enter/exit markers
        if call["op"] == "ctx":
            calls.append({"op": "_enter", "kind": call["kind"]})
            calls.extend(call["body"])
            calls.append({"op": "_exit"})
        else:
            calls.append(call)
    stack = []
    for i, call in enumerate(calls):
        if call["op"] == "_enter":
            cm = getattr(s.g, call["kind"])()
            cm.__enter__()
            stack.append(cm)
            cl.add("mode_context")
            s.poll()
            sh.compare_state(s, model, f"after entering {call['kind']}()")
            continue
        if call["op"] == "_exit":
            stack.pop().__exit__(None, None, None)
            s.poll()
            sh.compare_state(s, model, "after leaving a mode context")
            continue
        if call["op"] == "hook":
            s.g.remove_hook(rewriting_hook)
            hooked = bool(call["on"])
            if hooked:
                s.g.add_hook(rewriting_hook)
            continue
        if hooked and call["op"] in ("move", "move_absolute") and \
                ({"F", "S"} & set(call.get("kw", {}))):
            cl.add("move_with_rewriting_hook")
        before_tool = model.tool
        try:
            apply_call(s.g, call)
            ok = True
        except Exception as e:
            ok = False
            cl.add("raised:" + type(e).__name__)
        if ok:
            model.commit(call)
            kinds.add(call["op"])
            kw = call.get("kw", {})
            if call["op"] in ("move", "rapid", "move_absolute", "rapid_absolute",
                              "probe") and "S" in kw and before_tool:
                cl.add("S_overwritten_by_move_while_running")
            if call["op"] in ("probe", "move_absolute", "rapid_absolute") and "F" in kw:
                cl.add("F_via_probe_or_absolute")
            if call["op"] == "halt" and kw:
                cl.add("temperature_via_halt")
        s.poll()
        sh.compare_state(s, model, f"after call #{i} {call!r} ({'ok' if ok else 'raised'})")
    if len(kinds) >= 3:
        cl.add("three_kinds")
    return cl


def nontrivial(cl):
    return "three_kinds" in cl and bool(cl & {
        "S_overwritten_by_move_while_running", "F_via_probe_or_absolute",
        "temperature_via_halt", "move_with_rewriting_hook"})


def replay(case):
    run_case(case)


SIBLINGS = {"set_bed_temperature": "set_chamber_temperature",
            "set_chamber_temperature": "set_hotend_temperature",
            "set_hotend_temperature": "set_bed_temperature",
            "set_feed_rate": "set_tool_power", "set_tool_power": "set_feed_rate",
            "tool_on": "power_on", "power_on": "tool_on", "coolant_on": "coolant_on"}
HALT_SIBLINGS = {"wait-for-bed": "wait-for-chamber", "wait-for-chamber": "wait-for-hotend",
                 "wait-for-hotend": "wait-for-bed"}


def strategy(n):
    from hypothesis import strategies as st
    hook = st.booleans().map(lambda b: {"op": "hook", "on": b})
    ctx = st.fixed_dictionaries({"op": st.just("ctx"),
                                 "kind": st.sampled_from(["absolute_mode", "relative_mode"]),
                                 "body": st.lists(sh.call_strategy(), max_size=4)})
    return st.fixed_dictionaries({
        "dp": st.integers(3, 9), "hook0": st.sampled_from([False, False, True]),
        "limits": st.sampled_from([None, None, None,
                                   [["axes", [-8.0, -8.0, -8.0], [8.0, 8.0, 8.0]]],
                                   [["axes", [0.0, 0.0, 0.0], [15.0, 15.0, 5.0]],
                                    ["feed-rate", 10.0, 2000.0]],
                                   [["tool-power", 5.0, 1000.0], ["bed-temperature", 0.0, 120.0],
                                    ["hotend-temperature", 0.0, 280.0]]]),
        "calls": st.lists(hist.weighted(
            (8, sh.call_strategy()), (1, hook), (1, ctx),
            (2, st.integers(0, 3).map(lambda b: {"op": "repeat", "back": b})),
            (2, st.integers(0, 3).map(lambda b: {"op": "sibling", "back": b}))),
            min_size=1, max_size=n)})


def run_shard(ctx):
    n = 300 if ctx.tier == "quick" else 20000

    def body(case):
        cl = run_case(case, set())
        ctx.case(case, nontrivial=nontrivial(cl), classes=sorted(cl),
                 steps=len(case["calls"]))

    run_hypothesis(ctx, strategy(30 if ctx.tier == "quick" else 45), body, n)
