"""C17 — socket input is split into lines independently of packet boundaries.

Generator: a byte stream given directly as its fragmentation (list of chunks of
1..256 bytes over an alphabet biased to newline / CR / 'o' / 'k'), with any
number of "no data yet" events between chunks (each followed by a select()
result "ready" or "not ready"), then end-of-stream.  Delivered to a real
gscrib.printrun.device.Device connected through Device.connect("127.0.0.1:p")
with socket.socket and selectors.DefaultSelector replaced by scripted doubles.

Oracle (independent of the code): concatenation of the non-empty readline()
results == the stream; every result but the last non-empty one ends in "\n" and
contains exactly one; the tail is returned once, then READ_EOF; READ_EMPTY only
as often as the script said "no data".
"""

import itertools
from unittest import mock

from vf.runner import Violation, HarnessError, run_hypothesis

ID = "C17"
LEVEL = "exploration"
SHARDS = {"quick": 8, "thorough": 16}
EXHAUSTIVE = {"quick": False, "thorough": False}
RULE = ("cases = (list of chunks 1..256 bytes, 'no data' events with select "
        "ready/not-ready between them, write attempts by the host between "
        "reads incl. ones failing with EPIPE, EOF); also streams of 320..700 short "
        "lines (4..9 KiB) cut by a cyclic list of sizes, and two devices alive at "
        "once read in a generated interleaving; hypothesis-generated, thorough "
        "adds every stream of length<=7 over {a,\\n} x every composition into "
        "chunks x {no wait, wait-not-ready, wait-ready} before each chunk and "
        "an atheris campaign; non-trivial = a line spanning >=3 chunks, or >=2 "
        "newlines in one chunk, or a newline as last byte of a chunk, or a "
        "'no data' event inside a line; distinct by SHA-1 of the case")
ASSUMPTIONS = [
    "socket.socket / selectors.DefaultSelector are replaced by scripted "
    "doubles with the semantics of a non-blocking socket file: read(n) -> "
    "bytes (<=n), None when no data yet, b'' at EOF",
    "read() never returns more than the requested 256 bytes",
    "write attempts between reads (event 'x'), also ones that fail with "
    "EPIPE, do not release the reader from delivering what the socket still "
    "returns: 'no byte is lost' is read as covering every byte read() hands over",
]


# ---------------------------------------------------------------------------
# scripted doubles
# ---------------------------------------------------------------------------

class _Script:
    def __init__(self, events):
        # events: list of ("d", bytes) | ("w", ready_bool)
        self.events = list(events)
        self.i = 0
        self.pending_ready = False
        self.waits_consumed = 0
        self.reads = 0
        self.deferred = []        # write attempts met while reading: (fails?)
        self.fail_next_write = False

    def read(self, n):
        self.reads += 1
        if self.reads > 100000:
            raise HarnessError("runaway read loop")
        if self.i >= len(self.events):
            return b""
        kind, val = self.events[self.i]
        while kind == "x":
            # a write attempt scheduled here: carried out by the harness as
            # soon as the current readline() call has returned
            self.deferred.append(bool(val))
            self.i += 1
            if self.i >= len(self.events):
                return b""
            kind, val = self.events[self.i]
        if kind == "d":
            if len(val) > n:
                raise HarnessError("chunk larger than requested size")
            self.i += 1
            return val
        self.i += 1
        self.waits_consumed += 1
        self.pending_ready = bool(val)
        return None

    def select(self, timeout=None):
        r = self.pending_ready
        self.pending_ready = False
        return [object()] if r else []


class _FakeFile:
    def __init__(self, script):
        self._s = script

    def read(self, n=-1):
        return self._s.read(n)

    def write(self, data):
        if self._s.fail_next_write:
            self._s.fail_next_write = False
            raise BrokenPipeError(32, "Broken pipe")
        return len(data)

    def flush(self):
        pass

    def close(self):
        pass


class _FakeSocket:
    script = None

    def __init__(self, *a, **k):
        pass

    def setsockopt(self, *a):
        pass

    def settimeout(self, t):
        pass

    def connect(self, addr):
        pass

    def makefile(self, *a, **k):
        return _FakeFile(_FakeSocket.script)

    def close(self):
        pass


class _FakeSelector:
    def __init__(self, *a, **k):
        self._s = _FakeSocket.script      # the device being connected right now

    def register(self, *a, **k):
        pass

    def unregister(self, *a, **k):
        pass

    def select(self, timeout=None):
        return self._s.select(timeout)

    def close(self):
        pass


def run_device(events):
    """Feed the scripted events to a real Device; return list of readline results."""
    from gscrib.printrun import device as devmod
    script = _Script(events)
    _FakeSocket.script = script
    with mock.patch.object(devmod.socket, "socket", _FakeSocket), \
            mock.patch.object(devmod.selectors, "DefaultSelector", _FakeSelector):
        dev = devmod.Device()
        dev.connect("127.0.0.1:8000")
        results = []
        limit = 2 * len(events) + 10 + sum(
            v.count(b"\n") for k, v in events if k == "d")
        limit += sum(1 for k, _ in events if k == "x")
        for _ in range(limit):
            while script.i < len(script.events) and script.events[script.i][0] == "x":
                script.deferred.append(bool(script.events[script.i][1]))
                script.i += 1
            for fails in script.deferred:
                # the host writes while input is still arriving; a failed write
                # (peer reset on send) must not lose what was already received
                script.fail_next_write = fails
                try:
                    dev.write(b"M105\n")
                    if fails:
                        raise Violation("write() on a broken pipe did not raise")
                except devmod.DeviceError:
                    if not fails:
                        raise Violation("write() raised DeviceError on a healthy socket")
            del script.deferred[:]
            r = dev.readline()
            results.append(r)
            if r is None:
                break
        connected_after = dev.is_connected
    return results, script, connected_after


def oracle(events):
    stream = b"".join(v for k, v in events if k == "d")
    nwaits = sum(1 for k, _ in events if k == "w")
    if any(k == "x" for k, _ in events):
        pass
    try:
        results, script, connected_after = run_device(events)
    except (HarnessError, Violation):
        raise
    except Exception as e:  # the reader must not crash on any fragmentation
        raise Violation(f"readline raised {type(e).__name__}: {e}")
    if not results or results[-1] is not None:
        raise Violation("READ_EOF never returned after end-of-stream; "
                        f"results={results[-5:]!r}")
    body = results[:-1]
    for r in body:
        if not isinstance(r, (bytes, bytearray)):
            raise Violation(f"unexpected readline result {r!r}")
    nonempty = [r for r in body if r != b""]
    got = b"".join(nonempty)
    if got != stream:
        raise Violation(f"concatenation differs: stream={stream!r} got={got!r}")
    for idx, r in enumerate(nonempty):
        last = idx == len(nonempty) - 1
        if r.count(b"\n") > 1:
            raise Violation(f"result with more than one newline: {r!r}")
        if not r.endswith(b"\n"):
            if not last:
                raise Violation(f"unterminated result before the end: {r!r}")
        elif r.count(b"\n") != 1:
            raise Violation(f"malformed line {r!r}")
    empties = len(body) - len(nonempty)
    if empties > nwaits:
        raise Violation(f"{empties} READ_EMPTY results but only {nwaits} "
                        "'no data' events in the script")
    if connected_after:
        raise Violation("device still reports connected after READ_EOF")
    return results


def classify(events):
    classes = []
    span = 0           # chunks contributing to the current line
    wait_in_line = False
    inside = False
    for k, v in events:
        if k == "x":
            continue
        if k == "w":
            if inside:
                wait_in_line = True
            continue
        if v.count(b"\n") >= 2:
            classes.append("two_newlines_in_chunk")
        if v.endswith(b"\n"):
            classes.append("newline_last_byte")
        parts = v.split(b"\n")
        # first part continues the current line
        span += 1
        if len(parts) > 1:
            if span >= 3:
                classes.append("line_spans_3_chunks")
            span = 1 if parts[-1] else 0
            inside = bool(parts[-1])
        else:
            inside = True
    if wait_in_line:
        classes.append("wait_inside_line")
    if any(len(v) == 256 for k, v in events if k == "d"):
        classes.append("full_256_chunk")
    if any(k == "x" for k, v in events):
        classes.append("write_between_reads")
    if any(k == "x" and v for k, v in events):
        classes.append("failed_write_between_reads")
    return sorted(set(classes))


def to_events(case):
    return [(k, (v if k == "d" else bool(v))) for k, v in case]


def replay(case):
    if isinstance(case, dict):
        run_two_devices(to_events(case["a"]), to_events(case["b"]), case["order"])
    else:
        oracle(to_events(case))


# ---------------------------------------------------------------------------
# generators
# ---------------------------------------------------------------------------

def _mkbig(t):
    n, fill, pos = t
    b = bytearray([fill]) * n
    for p in pos:
        b[p % n] = 10
    return bytes(b)


def strategy():
    from hypothesis import strategies as st
    byte = st.one_of(st.sampled_from(list(b"\n\n\n\r\rok  a")),
                     st.integers(0, 255))
    small = st.lists(byte, min_size=1, max_size=12).map(bytes)
    # long chunks are built, not drawn byte by byte: a filler of length n with
    # newlines planted at a few drawn positions (cheap to generate and shrink)
    big = st.tuples(st.integers(200, 256), st.sampled_from(list(b"ok a\r")),
                    st.lists(st.integers(0, 255), max_size=3)).map(_mkbig)
    nonl = st.lists(st.sampled_from(list(b"ok T:2 x")), min_size=1,
                    max_size=6).map(bytes)
    chunk = st.one_of(small, small, nonl, nonl, big)
    ev = st.one_of(
        st.tuples(st.just("d"), chunk),
        st.tuples(st.just("d"), chunk),
        st.tuples(st.just("w"), st.booleans()),
        st.tuples(st.just("d"), chunk),
        st.tuples(st.just("d"), chunk),
        st.tuples(st.just("w"), st.booleans()),
        st.tuples(st.just("x"), st.sampled_from([False, False, True])),
    )
    return st.lists(ev, min_size=0, max_size=30).map(
        lambda l: [list(e) for e in l])


def long_events(t):
    """A stream of several KiB of short lines, cut by a cyclic list of sizes."""
    nlines, sizes, tail = t
    stream = b"".join(b"ok T:%d /210\n" % (200 + i % 37) for i in range(nlines)) + tail
    events, pos, i = [], 0, 0
    while pos < len(stream):
        n = sizes[i % len(sizes)]
        events.append(["d", stream[pos:pos + n]])
        pos += n
        i += 1
    return events


def long_strategy():
    from hypothesis import strategies as st
    return st.tuples(st.integers(320, 700),
                     st.lists(st.one_of(st.integers(1, 256), st.sampled_from([256, 255, 200, 13])),
                              min_size=3, max_size=40),
                     st.sampled_from([b"", b"tail", b"T:2"])).map(long_events)


def run_two_devices(events_a, events_b, order):
    """Two Device objects alive at once, each on its own scripted socket, read in
    the interleaving `order` (True = A reads next): neither may see the other's
    bytes or lose its own."""
    from gscrib.printrun import device as devmod
    out = {}
    with mock.patch.object(devmod.socket, "socket", _FakeSocket), \
            mock.patch.object(devmod.selectors, "DefaultSelector", _FakeSelector):
        devs = []
        for ev in (events_a, events_b):
            script = _Script([e for e in ev if e[0] != "x"])
            _FakeSocket.script = script
            dev = devmod.Device()
            dev.connect("127.0.0.1:8000")
            devs.append((dev, script, []))
        done = [False, False]
        turn = 0
        budget = 4 * (len(events_a) + len(events_b)) + 40 + sum(
            v.count(b"\n") for ev in (events_a, events_b) for k, v in ev if k == "d")
        while not all(done) and budget > 0:
            budget -= 1
            i = 0 if (order[turn % len(order)] if order else True) else 1
            turn += 1
            if done[i]:
                i = 1 - i
            dev, script, res = devs[i]
            r = dev.readline()
            if r is None:
                done[i] = True
            else:
                res.append(r)
        for name, (dev, script, res), ev in zip("AB", devs, (events_a, events_b)):
            stream = b"".join(v for k, v in ev if k == "d")
            got = b"".join(x for x in res if x)
            if got != stream:
                raise Violation(f"two devices alive: device {name} returned {got[:120]!r}..., its "
                                f"socket delivered {stream[:120]!r}... ({len(got)} vs {len(stream)} bytes)")
            nonempty = [x for x in res if x]
            for x in nonempty[:-1]:
                if x.count(b"\n") != 1 or not x.endswith(b"\n"):
                    raise Violation(f"two devices alive: device {name} returned {x!r}")
    return True


def _exhaustive(ctx, maxlen):
    """All streams over {a,\n} of length<=maxlen x compositions x wait marks."""
    idx = 0
    for n in range(0, maxlen + 1):
        for bits in itertools.product(b"a\n", repeat=n):
            idx += 1
            if idx % ctx.nshards != ctx.shard:
                continue
            stream = bytes(bits)
            for cuts in itertools.product((0, 1), repeat=max(n - 1, 0)):
                chunks = []
                start = 0
                for i, c in enumerate(cuts):
                    if c:
                        chunks.append(stream[start:i + 1])
                        start = i + 1
                if n:
                    chunks.append(stream[start:])
                for marks in itertools.product((0, 1, 2), repeat=len(chunks)):
                    events = []
                    for ch, m in zip(chunks, marks):
                        if m:
                            events.append(("w", m == 2))
                        events.append(("d", ch))
                    try:
                        oracle(events)
                    except Violation as v:
                        ctx.violation([list(e) for e in events], str(v),
                                      "exhaustive")
                        return
                    cl = classify(events)
                    ctx.case([list(e) for e in events], nontrivial=bool(cl),
                             classes=["exh:" + c for c in cl] + ["exhaustive"])


def run_shard(ctx):
    n = 1500 if ctx.tier == "quick" else 40000

    def body(case):
        events = to_events(case)
        cl = classify(events)
        oracle(events)
        ctx.case(case, nontrivial=bool(set(cl) - {"write_between_reads",
                                                   "failed_write_between_reads"}),
                 classes=cl, steps=len(events))

    run_hypothesis(ctx, strategy(), body, n)

    # streams of several KiB (buffers that are compacted lazily, offsets that
    # must survive it)
    def body_long(case):
        events = to_events(case)
        oracle(events)
        ctx.case(case, nontrivial=True, classes=["stream_of_several_KiB"], steps=len(events))

    run_hypothesis(ctx, long_strategy(), body_long, 10 if ctx.tier == "quick" else 400,
                   sub="long")

    # two devices alive at once, read in a generated interleaving
    def body_two(case):
        run_two_devices(to_events(case["a"]), to_events(case["b"]), case["order"])
        ctx.case(case, nontrivial=len(case["a"]) > 1 and len(case["b"]) > 1,
                 classes=["two_devices_alive"], steps=len(case["a"]) + len(case["b"]))

    from hypothesis import strategies as st
    run_hypothesis(ctx, st.fixed_dictionaries({
        "a": strategy(), "b": strategy(),
        "order": st.lists(st.booleans(), min_size=1, max_size=12)}), body_two,
        150 if ctx.tier == "quick" else 6000, sub="two")
    _exhaustive(ctx, 5 if ctx.tier == "quick" else 7)
    if ctx.shard == 0:
        real_socket_tier(ctx, 6 if ctx.tier == "quick" else 60)
    if ctx.tier == "thorough" and ctx.shard < 4:
        _atheris(ctx)


# ---------------------------------------------------------------------------
# atheris tier (thorough): bytes -> (stream, cut points, wait marks)
# ---------------------------------------------------------------------------

def _decode(data):
    # layout: pairs (ctrl, payload...) ; ctrl&3==0 -> wait(ready=bit2) else chunk
    events = []
    i = 0
    while i < len(data) and len(events) < 40:
        c = data[i]
        i += 1
        if c & 3 == 0:
            events.append(("w", bool(c & 4)))
        else:
            ln = 1 + (c >> 2) % 24
            ch = data[i:i + ln]
            i += ln
            if ch:
                events.append(("d", bytes((10 if b < 40 else b) for b in ch)))
    return events


def _atheris(ctx):
    try:
        import atheris
    except Exception:
        ctx.notes.append("atheris not importable; fuzz tier skipped")
        return
    import tempfile
    import shutil
    found = {}

    def target(data):
        events = _decode(data)
        try:
            oracle(events)
        except Violation as v:
            found["case"] = [list(e) for e in events]
            found["msg"] = str(v)
            raise
        cl = classify(events)
        ctx.case([list(e) for e in events], nontrivial=bool(cl),
                 classes=["fuzz"] + ["fuzz:" + c for c in cl])

    # atheris.Fuzz() terminates the process; run it in a forked child that
    # reports through a pipe so the shard survives.
    import os
    import json
    from vf.runner import to_jsonable
    corpus = tempfile.mkdtemp(prefix="c17fuzz")
    r, w = os.pipe()
    pid = os.fork()
    if pid == 0:
        os.close(r)
        out = os.fdopen(w, "w")
        import atexit

        def report():
            pass
        try:
            atheris.instrument_imports(include=["gscrib.printrun.device"])
        except Exception:
            pass
        import gscrib.printrun.device  # noqa
        runs = 150000

        counter = {"n": 0}

        def tgt(data):
            counter["n"] += 1
            try:
                target(data)
            except Violation:
                json.dump({"violation": found, "n": counter["n"]}, out)
                out.flush()
                os._exit(0)
            if counter["n"] >= runs:
                json.dump({"n": counter["n"], "eval": ctx.evaluations,
                           "nontrivial": sorted(ctx.nontrivial),
                           "classes": ctx.classes}, out)
                out.flush()
                os._exit(0)
        sys_argv = ["c17fuzz", "-seed=%d" % (ctx.seed & 0x7FFFFFFF or 1),
                    "-runs=%d" % (runs + 10), "-max_len=200", corpus]
        devnull = os.open(os.devnull, os.O_WRONLY)
        os.dup2(devnull, 2)
        atheris.Setup(sys_argv, tgt)
        atheris.Fuzz()
        os._exit(0)
    os.close(w)
    with os.fdopen(r) as f:
        txt = f.read()
    os.waitpid(pid, 0)
    shutil.rmtree(corpus, ignore_errors=True)
    if not txt:
        ctx.notes.append("atheris child produced no report")
        return
    rep = json.loads(txt)
    if "violation" in rep:
        ctx.violation(rep["violation"]["case"], rep["violation"]["msg"], "atheris")
        return
    # merge the child's counters (it started from a copy of ours)
    ctx.evaluations = rep["eval"]
    ctx.nontrivial = set(rep["nontrivial"])
    ctx.classes = rep["classes"]
    ctx.count("atheris_runs", rep["n"])

TECHNIQUE = ("property-based testing (Hypothesis) of scripted fragmentations "
             "against a concatenation oracle + bounded-exhaustive enumeration "
             "+ atheris fuzzing")
LEVEL_TEXT = ("Generated-input search: thousands of random fragmentations per "
              "run, every small stream/fragmentation/timeout placement "
              "exhaustively (length<=5 quick, <=7 thorough), a few runs over a real "
              "loopback socket and a coverage-"
              "guided campaign, each judged by an oracle that only knows the "
              "byte stream. Exploration, not proof: absence of a violation "
              "is relative to the explored volume reported in the evidence.")


# ---------------------------------------------------------------------------
# end-to-end sanity tier: the same oracle over a REAL loopback TCP socket with
# TCP_NODELAY and paced sends (validates the doubles' read()/select() model)
# ---------------------------------------------------------------------------

def run_real_socket(chunks, pace=0.002):
    import socket
    import threading
    import time
    from gscrib.printrun import device as devmod
    srv = socket.socket(socket.AF_INET, socket.SOCK_STREAM)
    srv.bind(("127.0.0.1", 0))
    srv.listen(1)
    port = srv.getsockname()[1]

    def serve():
        conn, _ = srv.accept()
        conn.setsockopt(socket.IPPROTO_TCP, socket.TCP_NODELAY, 1)
        for ch in chunks:
            conn.sendall(ch)
            time.sleep(pace)
        conn.close()
    th = threading.Thread(target=serve, daemon=True)
    th.start()
    dev = devmod.Device()
    dev.connect(f"127.0.0.1:{port}")
    results, empties = [], 0
    t0 = time.time()
    while time.time() - t0 < 10:
        r = dev.readline()
        if r is None:
            break
        if r == b"":
            empties += 1
            continue
        results.append(r)
    else:
        raise Violation("real socket: READ_EOF never returned")
    try:
        dev.disconnect()
    except Exception:
        pass
    srv.close()
    th.join(2)
    return results


def real_socket_tier(ctx, n):
    from hypothesis import strategies as st

    def body(case):
        chunks = [c for k, c in to_events(case) if k == "d"]
        stream = b"".join(chunks)
        got = run_real_socket(chunks)
        if b"".join(got) != stream:
            raise Violation(f"real socket: concatenation differs: stream={stream!r} got={got!r}")
        for i, r in enumerate(got):
            if r.count(b"\n") > 1 or (not r.endswith(b"\n") and i != len(got) - 1):
                raise Violation(f"real socket: malformed line {r!r}")
        ctx.case(case, nontrivial=len(chunks) >= 2 and b"\n" in stream,
                 classes=["real_socket"], steps=len(chunks))

    run_hypothesis(ctx, strategy().filter(lambda c: any(k == "d" for k, _ in c)), body, n,
                   sub="real_socket")
