"""C20 — move hooks see the true move and extrusion matches path length.

Histories (no transform) over move / rapid / move_absolute / rapid_absolute /
coarse tracer paths / set_distance_mode / set_extrusion_mode / set_axis(E=v)
with three kinds of hooks installed and removed along the way: a recording
probe hook, a parameter-rewriting hook (returns a *new* dict) and the bundled
extrusion_hook(layer, nozzle, filament).
"""

import math
from fractions import Fraction

from vf.runner import Violation, HarnessError, run_hypothesis
from vf.common import Session, ulp
from vf.machine import norm_code
from vf import hist

ID = "C20"
LEVEL = "exploration"
SHARDS = {"quick": 8, "thorough": 16}
RULE = ("cases = (decimal places 5..9, extrusion geometry (layer, nozzle, "
        "filament), list of <=25 ops: move with partial axes and extra "
        "parameters, rapid, move_absolute, rapid_absolute, polyline/arc paths, "
        "set_distance_mode, set_extrusion_mode, set_axis(E=v), add_hook/"
        "remove_hook of probe hooks, a rewriting hook, a hook that returns a new "
        "dict with a word left out, a hook that returns an empty mapping, and the extrusion hook, move_hook() contexts "
        "with hooks added/removed inside the block; hooks registered as plain "
        "functions, bound methods (a fresh method object per add/remove), "
        "callable objects or functools.partial); non-trivial = >=3 G1 segments with the "
        "extrusion hook active, in relative distance mode or spanning an E "
        "reset or an extrusion-mode switch; distinct by SHA-1")
ASSUMPTIONS = [
    "no transform is active (with one, the hook's target is in machine space; "
    "the property does not quantify over transforms)",
    "E_prev of the running total = last E word on a G0/G1/G92 line of the "
    "emitted program (0 if none)",
    "tolerance on E: 2*U(dp) (own rounding + rounding of the previous E word; "
    "the hook adds exact floats) + k*4*U (XY length re-derived from rounded "
    "words) + 1e-9*(1+|E|)",
]
TECHNIQUE = ("model-based property testing (Hypothesis histories) with "
             "recording hooks and the independent interpreter as oracle")
LEVEL_TEXT = ("Generated histories with hooks installed/removed along the way; "
              "hook arguments compared with a reference model of the true move, "
              "emitted words with what the last hook returned, E words with the "
              "closed-form filament length. Exploration.")


def op_strategy(depth=1):
    from hypothesis import strategies as st
    if depth > 0:
        inner = op_strategy(0)
        ctx = st.fixed_dictionaries({
            "op": st.just("hookctx"),
            "hook": st.sampled_from(["probe1", "probe2", "rewrite", "extrude", "drop", "strip", "lower"]),
            "body": st.lists(inner, max_size=4)})
        return hist.weighted((7, inner), (1, ctx))
    c = hist.small_coord()
    pt = st.fixed_dictionaries({}, optional={"x": c, "y": c, "z": c})
    v = st.one_of(st.integers(0, 3000).map(float), st.floats(min_value=0, max_value=1e4))
    params = st.fixed_dictionaries({}, optional={"F": v, "A": c, "E": st.floats(min_value=-50, max_value=50)})
    shape = st.fixed_dictionaries({"op": st.just("shape"), "dir": st.sampled_from(["cw", "ccw"]),
                                   "d": hist.equally(
        st.fixed_dictionaries({"shape": st.just("polyline"),
                               "pts": st.lists(st.tuples(c, c, c), min_size=1, max_size=4),
                               "zgiven": st.booleans()}),
        st.fixed_dictionaries({"shape": st.just("arc"), "r": st.floats(min_value=1, max_value=20),
                               "a0": st.floats(min_value=-3, max_value=3),
                               "sweep": st.floats(min_value=0.3, max_value=5.5),
                               "dz": st.just(0.0), "zgiven": st.just(False)}))})
    return hist.weighted(
        (8, st.tuples(st.sampled_from(["move", "move", "move", "move", "rapid", "move_absolute",
                                       "move_absolute", "rapid_absolute"]), pt, params).map(
            lambda t: {"op": t[0], "pt": t[1], "params": t[2]})),
        (3, shape),
        (2, st.sampled_from(["absolute", "relative"]).map(
            lambda m: {"op": "set_distance_mode", "mode": m})),
        (2, st.sampled_from(["absolute", "relative"]).map(
            lambda m: {"op": "set_extrusion_mode", "mode": m})),
        (2, st.one_of(st.just(0.0), st.floats(min_value=-20, max_value=20)).map(
            lambda e: {"op": "set_axis_E", "E": e})),
        (3, st.sampled_from(["probe1", "probe2", "rewrite", "extrude", "extrude", "drop", "strip", "lower"]).map(
            lambda h: {"op": "add_hook", "hook": h})),
        (2, st.sampled_from(["probe1", "probe2", "rewrite", "extrude", "drop", "strip", "lower"]).map(
            lambda h: {"op": "remove_hook", "hook": h})),
        (1, st.just({"op": "other_builder"})),
    )


class Runner:
    def __init__(self, case, cl):
        from gscrib.hooks import extrusion_hook
        from gscrib.params import ParamsDict
        self.s = Session(dp=case["dp"])
        self.g = self.s.g
        self.cl = cl
        self.calls = []           # per hook call: (name, origin, target, params_in copy)
        geo = case["geo"]
        self.k = geo["nozzle"] * geo["layer"] / (math.pi * (geo["filament"] / 2.0) ** 2)
        self.installed = []       # names in registration order
        ext = extrusion_hook(geo["layer"], geo["nozzle"], geo["filament"])

        def mk_probe(name):
            def hook(origin, target, params, state):
                self.calls.append((name, tuple(origin), tuple(target), dict(params)))
                return params
            return hook

        def rewrite(origin, target, params, state):
            self.calls.append(("rewrite", tuple(origin), tuple(target), dict(params)))
            new = ParamsDict(params)
            new["Q"] = 7.5
            if new.get("F") is not None:
                new["F"] = new["F"] / 2.0
            return new

        def drop(origin, target, params, state):
            """Returns a NEW dict that leaves the A word out."""
            self.calls.append(("drop", tuple(origin), tuple(target), dict(params)))
            new = ParamsDict({k: v for k, v in params.items() if k.upper() != "A"})
            return new

        def extrude(origin, target, params, state):
            self.calls.append(("extrude", tuple(origin), tuple(target), dict(params)))
            return ext(origin, target, params, state)

        def strip(origin, target, params, state):
            """Returns an EMPTY mapping: every extra word is stripped (an empty
            mapping is falsy, but it is a result like any other)."""
            self.calls.append(("strip", tuple(origin), tuple(target), dict(params)))
            return ParamsDict()

        def lower(origin, target, params, state):
            """Returns a plain dict with lower-case words (same values)."""
            self.calls.append(("lower", tuple(origin), tuple(target), dict(params)))
            return {k.lower(): v for k, v in params.items()}

        funcs = {"probe1": mk_probe("probe1"), "probe2": mk_probe("probe2"),
                 "rewrite": rewrite, "extrude": extrude, "drop": drop, "strip": strip,
                 "lower": lower}
        # the same logical hooks in the forms a caller may register them in:
        # plain functions, bound methods (every attribute access makes a new,
        # equal method object), callable objects, functools.partial objects
        form = case.get("hook_form", "function")

        class Holder:
            def probe1(self, o, t, p, st):
                return funcs["probe1"](o, t, p, st)

            def probe2(self, o, t, p, st):
                return funcs["probe2"](o, t, p, st)

            def rewrite(self, o, t, p, st):
                return funcs["rewrite"](o, t, p, st)

            def extrude(self, o, t, p, st):
                return funcs["extrude"](o, t, p, st)

            def drop(self, o, t, p, st):
                return funcs["drop"](o, t, p, st)

            def strip(self, o, t, p, st):
                return funcs["strip"](o, t, p, st)

            def lower(self, o, t, p, st):
                return funcs["lower"](o, t, p, st)

        class Obj:
            def __init__(self, f):
                self.f = f

            def __call__(self, o, t, p, st):
                return self.f(o, t, p, st)

        holder = Holder()
        objs = {k: Obj(f) for k, f in funcs.items()}
        import functools
        parts = {k: functools.partial(f) for k, f in funcs.items()}

        def getter(name):
            if form == "method":
                return getattr(holder, name)      # a fresh bound method each time
            if form == "callable":
                return objs[name]
            if form == "partial":
                return parts[name]
            return funcs[name]
        self.hook = getter
        if form != "function":
            cl.add("hook_form:" + form)
        self.ext_segments = 0
        self.ext_flags = set()

    def run(self, ops):
        for op in ops:
            self.step(op)
        if self.ext_segments >= 3 and self.ext_flags:
            self.cl.add("NT")

    def step(self, op):
        g, s = self.g, self.s
        name = op["op"]
        if name == "other_builder":
            from vf.statehist import other_builder_activity
            other_builder_activity()      # registers a hook on ANOTHER builder etc.
            self.cl.add("other_builder_active")
            return
        if name == "add_hook":
            g.add_hook(self.hook(op["hook"]))
            if op["hook"] not in self.installed:
                self.installed.append(op["hook"])
            return
        if name == "remove_hook":
            g.remove_hook(self.hook(op["hook"]))
            if op["hook"] in self.installed:
                self.installed.remove(op["hook"])
            return
        if name == "hookctx":
            # with g.move_hook(h): registers h for the block and removes it after
            h = op["hook"]
            with g.move_hook(self.hook(h)):
                if h not in self.installed:
                    self.installed.append(h)
                for sub in op["body"]:
                    self.step(sub)
            if h in self.installed:
                self.installed.remove(h)
            self.cl.add("move_hook_context")
            return
        if name == "set_distance_mode":
            g.set_distance_mode(op["mode"])
            s.poll()
            return
        if name == "set_extrusion_mode":
            g.set_extrusion_mode(op["mode"])
            s.poll()
            if "extrude" in self.installed:
                self.ext_flags.add("extrusion_mode_switch")
            return
        if name == "set_axis_E":
            g.set_axis(E=op["E"])
            s.poll()
            if "extrude" in self.installed:
                self.ext_flags.add("E_reset")
            return
        # motion ------------------------------------------------------------
        self.calls.clear()
        p0 = g.position.resolve()
        origin0 = (float(p0.x), float(p0.y), float(p0.z))
        rel0 = g.distance_mode.is_relative
        e_prev = s.machine.last.get("E")
        ext_mode = g.state.extrusion_mode.value
        try:
            hist.exec_primitive(g, op)
        except ValueError:
            self.cl.add("rejected")
        track = {"pos": list(origin0), "E": e_prev}
        lines = []
        s.poll(lambda words, raw: lines.append((words, raw, dict(s.machine.last))))
        g1 = []
        rel = rel0
        for words, raw, last in lines:
            codes = [norm_code(w) for w in words if w.letter in ("G", "M")]
            if "G90" in codes:
                rel = False
            if "G91" in codes:
                rel = True
            if "G1" in codes or "G0" in codes:
                o = tuple(track["pos"])
                for w in words:
                    if w.letter in "XYZ":
                        k = "XYZ".index(w.letter)
                        track["pos"][k] = track["pos"][k] + float(w.value) if rel else float(w.value)
                if "G1" in codes:
                    g1.append((o, tuple(track["pos"]), words, raw))
        nh = len(self.installed)
        if len(self.calls) != nh * len(g1):
            raise Violation(f"{op!r}: {len(g1)} G1 line(s) emitted with hooks "
                            f"{self.installed} but {len(self.calls)} hook call(s) recorded")
        U = float(s.U)
        for i, (o, t, words, raw) in enumerate(g1):
            chunk = self.calls[i * nh:(i + 1) * nh]
            if [c[0] for c in chunk] != self.installed:
                raise Violation(f"{op!r}: hooks ran in order {[c[0] for c in chunk]}, "
                                f"registered order {self.installed}")
            for (hname, ho, ht, pin) in chunk:
                tol = 2 * U + 1e-9 * (1 + max(abs(c) for c in t + o)) + \
                    (len(g1) * 2 * U if rel0 else 0)
                if math.dist(ho, o) > tol or math.dist(ht, t) > tol:
                    raise Violation(f"{op!r} segment #{i} ({raw!r}): hook {hname} saw "
                                    f"origin {ho} target {ht}, the move goes from {o} to {t}")
            # parameter chain: each hook receives what its predecessor returned
            for a, b in zip(chunk, chunk[1:]):
                exp = dict(a[3])
                if a[0] == "drop":
                    exp = {k: v for k, v in exp.items() if k.upper() != "A"}
                if a[0] == "strip":
                    exp = {}
                if a[0] == "rewrite":
                    exp["Q"] = 7.5
                    if exp.get("F") is not None:
                        exp["F"] = exp["F"] / 2.0
                if a[0] == "extrude":
                    exp.pop("E", None)
                got = dict(b[3])
                if a[0] == "extrude":
                    got.pop("E", None)
                # (words are case-insensitive: a hook may hand on lower-case keys)
                exp = {k.upper(): v for k, v in exp.items()}
                got = {k.upper(): v for k, v in got.items()}
                if a[0] == "extrude":
                    exp.pop("E", None)
                    got.pop("E", None)
                if exp != got:
                    raise Violation(f"{op!r}: hook {b[0]} received {b[3]!r}, its predecessor "
                                    f"{a[0]} returned {exp!r}")
            # emitted words == what the last hook returned
            if chunk:
                last = dict(chunk[-1][3])
                if chunk[-1][0] == "drop":
                    last = {k: v for k, v in last.items() if k.upper() != "A"}
                if chunk[-1][0] == "strip":
                    last = {}
                if chunk[-1][0] == "rewrite":
                    last["Q"] = 7.5
                    if last.get("F") is not None:
                        last["F"] = last["F"] / 2.0
                exp_letters = {k.upper(): v for k, v in last.items()
                               if k.upper() not in "XYZ" and v is not None}
                if chunk[-1][0] == "extrude":
                    exp_letters.pop("E", None)
                got = {w.letter: w for w in words if w.letter not in ("G", "M", "X", "Y", "Z")}
                for L, v in exp_letters.items():
                    if L not in got or abs(float(got[L].value) - float(v)) > U + 1e-12 * (1 + abs(v)):
                        raise Violation(f"{op!r} segment #{i}: emitted {raw!r} but the last hook "
                                        f"({chunk[-1][0]}) returned {L}={v!r}")
                    if i == len(g1) - 1:
                        rem = g.get_parameter(L)
                        if rem is None or abs(float(rem) - float(v)) > 1e-12 * (1 + abs(v)):
                            raise Violation(f"{op!r}: get_parameter({L!r}) = {rem!r} after the "
                                            f"move, last hook returned {v!r}")
                if i == len(g1) - 1 and exp_letters.get("F") is not None:
                    # remembered by the state object as well
                    sf = g.state.feed_rate
                    if sf is None or abs(float(sf) - float(exp_letters["F"])) > 1e-12 * (1 + abs(exp_letters["F"])):
                        raise Violation(f"{op!r}: state.feed_rate = {sf!r} after the move, the "
                                        f"last hook returned F={exp_letters['F']!r} ({raw!r})")
                extra = set(got) - set(exp_letters) - ({"E"} if "extrude" in self.installed else set())
                if extra:
                    raise Violation(f"{op!r} segment #{i}: emitted {raw!r} has words "
                                    f"{sorted(extra)} the hooks did not return")
            # extrusion
            if "extrude" in self.installed:
                after_ext = self.installed[self.installed.index("extrude") + 1:]
                ew = next((w for w in words if w.letter == "E"), None)
                if "strip" in after_ext:
                    # a later hook strips every word, the E of the extrusion hook too
                    if ew is not None:
                        raise Violation(f"{op!r} segment #{i}: {raw!r} carries E although a "
                                        "hook after the extrusion hook returned an empty mapping")
                    continue
                if ew is None:
                    raise Violation(f"{op!r} segment #{i}: no E word in {raw!r} with the "
                                    "extrusion hook installed")
                length = math.hypot(t[0] - o[0], t[1] - o[1])
                amount = self.k * length
                prev = track["E"] if track["E"] is not None else Fraction(0)
                exp = amount if ext_mode == "relative" else float(prev) + amount
                tolE = 2 * U + 1e-9 * (1 + abs(exp)) + self.k * (4 * U + 1e-9) * (len(g1) if rel0 else 1)
                if abs(float(ew.value) - exp) > tolE:
                    raise Violation(
                        f"{op!r} segment #{i} {raw!r}: E={float(ew.value)!r}, expected "
                        f"{exp!r} = {'' if ext_mode == 'relative' else repr(float(prev)) + ' + '}"
                        f"{self.k!r} x XY length {length!r} ({ext_mode} extrusion, "
                        f"{'relative' if rel0 else 'absolute'} distance mode)")
                self.ext_segments += 1
                if rel0:
                    self.ext_flags.add("relative_distance_mode")
            ew2 = next((w for w in words if w.letter == "E"), None)
            if ew2 is not None:
                track["E"] = ew2.value
        # G0 lines must not have triggered hooks: covered by the count above
        if any("G0" in [norm_code(w) for w in ws if w.letter == "G"] for ws, _, _ in lines) and nh:
            self.cl.add("rapid_with_hooks_installed")
        if nh >= 2 and g1:
            self.cl.add("two_hooks_chain")
        if len(g1) > 1:
            self.cl.add("interpolated_segments")


def run_case(case, cl=None):
    cl = set() if cl is None else cl
    Runner(case, cl).run(case["ops"])
    return cl


def replay(case):
    run_case(case)


def strategy(n):
    from hypothesis import strategies as st
    geo = st.fixed_dictionaries({"layer": st.floats(min_value=0.05, max_value=1.0),
                                 "nozzle": st.floats(min_value=0.1, max_value=1.2),
                                 "filament": st.floats(min_value=1.0, max_value=3.0)})
    pre = st.sampled_from([[], [{"op": "add_hook", "hook": "extrude"}],
                           [{"op": "add_hook", "hook": "probe1"}, {"op": "add_hook", "hook": "extrude"}],
                           [{"op": "add_hook", "hook": "extrude"}, {"op": "set_distance_mode", "mode": "relative"}]])
    return st.fixed_dictionaries({
        "dp": st.integers(5, 9), "geo": geo,
        "hook_form": st.sampled_from(["function", "function", "method", "callable", "partial"]),
        "ops": st.tuples(pre, st.lists(op_strategy(), min_size=1, max_size=n)).map(
            lambda t: t[0] + t[1])})


def run_shard(ctx):
    n = 300 if ctx.tier == "quick" else 20000

    def body(case):
        cl = run_case(case, set())
        ctx.case(case, nontrivial="NT" in cl, classes=sorted(cl), steps=len(case["ops"]))

    run_hypothesis(ctx, strategy(25 if ctx.tier == "quick" else 40), body, n)
