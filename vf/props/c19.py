"""C19 — heightmaps interpolate faithfully and sample paths within tolerance.

Raster maps (uint8/uint16 arrays, also loaded through from_path from PNG files
written by the harness) and sparse maps (>= 4 non-collinear points, also
loaded from CSV).  Oracles are independent of the implementation: the stored
arrays/points themselves, an own convex-combination / far-outside
construction for sparse hull membership, an own derivation of the pixels of a
line and of the equal-step samples for the drop rule of sample_path.
"""

import math
import os
import shutil
import tempfile
from fractions import Fraction

import numpy as np

from vf.runner import Violation, run_hypothesis

ID = "C19"
LEVEL = "exploration"
SHARDS = {"quick": 8, "thorough": 16}
RULE = ("cases = raster: (dtype uint8|uint16, height,width in 4..24, pattern "
        "constant|gradient|bytes, scale, tolerance, loaded directly or through "
        "a PNG written by the harness, query points at pixel centres / "
        "interior / outside, lines with integer and fractional ends inside and "
        "partly outside); sparse: (fat triangle + jittered-grid extras with "
        "arbitrary heights, scale, tolerance, direct or through CSV, queries "
        "at samples / convex combinations / far outside, lines with "
        "distance/tolerance <= 2000); non-trivial = a non-constant map and a "
        "path on which >=1 sample is dropped and >=1 interior sample is kept; "
        "distinct by SHA-1")
ASSUMPTIONS = [
    "raster exactness tolerance 2e-5*scale (float32 storage + spline fit)",
    "pixels of a line: one per step of the major axis, minor coordinate "
    "rounded; pixels whose minor coordinate is an exact .5 tie are not judged",
    "sparse queries within 1e-6 of the hull boundary are not generated; "
    "'outside' points are built beyond 1.5x the bounding radius",
    "tolerance == 0 is outside 'all positive tolerances'",
]
TECHNIQUE = ("property-based testing (Hypothesis) with independent reference "
             "computations (stored data, own line rasterisation, own equal-"
             "step sampling, constructed hull membership)")
LEVEL_TEXT = ("Generated maps, queries and lines judged against the stored "
              "data and independently derived sample sets; exploration.")


# ---------------------------------------------------------------------------
# raster
# ---------------------------------------------------------------------------

def make_image(c):
    h, w = c["h"], c["w"]
    dt = np.uint16 if c["dtype"] == "uint16" else np.uint8
    mx = 65535 if dt is np.uint16 else 255
    if c["pattern"] == "constant":
        img = np.full((h, w), c["value"] % (mx + 1), dtype=dt)
    elif c["pattern"] == "gradient":
        yy, xx = np.mgrid[0:h, 0:w]
        img = ((xx * c["gx"] + yy * c["gy"] + c["value"]) % (mx + 1)).astype(dt)
    else:
        raw = c["bytes"] or b"\x00"
        need = h * w * (2 if dt is np.uint16 else 1)
        buf = (raw * (need // len(raw) + 1))[:need]
        img = np.frombuffer(buf, dtype=dt).reshape(h, w).copy()
    return img, mx


def line_pixels(x1, y1, x2, y2):
    """Own derivation of the pixels of the line between integer end points:
    -> list of (set of candidate pixels) in order."""
    dx, dy = x2 - x1, y2 - y1
    n = max(abs(dx), abs(dy))
    if n == 0:
        return [{(x1, y1)}]
    out = []
    for t in range(n + 1):
        if abs(dx) >= abs(dy):
            a = x1 + (t if dx > 0 else -t)
            b = Fraction(y1) + Fraction(dy * t, n)
            lo = math.floor(b)
            if b - lo == Fraction(1, 2):
                out.append({(a, lo), (a, lo + 1)})
            else:
                out.append({(a, int(math.floor(b + Fraction(1, 2))))})
        else:
            a = y1 + (t if dy > 0 else -t)
            b = Fraction(x1) + Fraction(dx * t, n)
            lo = math.floor(b)
            if b - lo == Fraction(1, 2):
                out.append({(lo, a), (lo + 1, a)})
            else:
                out.append({(int(math.floor(b + Fraction(1, 2))), a)})
    return out


def check_drop_rule(kept_idx, zs, tol, what):
    """kept_idx: indices into the dense sample list that were returned;
    zs: heights of the dense samples (None = not judged)."""
    dropped = kept_interior = 0
    last = 0
    last_z = zs[kept_idx[0]]
    for j in range(1, len(zs)):
        z = zs[j]
        is_kept = j in kept_idx
        final = j == len(zs) - 1
        if z is None or last_z is None:
            if is_kept:
                last_z = z
            continue
        if is_kept and not final:
            if abs(z - last_z) < tol:
                raise Violation(f"{what}: sample #{j} (z={z!r}) was kept although it "
                                f"differs from the previously kept height {last_z!r} by "
                                f"less than the tolerance {tol!r}")
            kept_interior += 1
            last_z = z
        elif not is_kept:
            if abs(z - last_z) >= tol:
                raise Violation(f"{what}: sample #{j} (z={z!r}) was dropped although it "
                                f"differs from the previously kept height {last_z!r} by "
                                f"{abs(z - last_z)!r} >= tolerance {tol!r}")
            dropped += 1
    return dropped, kept_interior


def check_raster(c, cl):
    from gscrib.heightmaps import RasterHeightMap
    img, mx = make_image(c)
    tmp = None
    try:
        if c["via_file"]:
            import cv2
            tmp = tempfile.mkdtemp(prefix="c19-")
            path = os.path.join(tmp, "map.png")
            if c.get("reload", True):
                # another image is installed at this path and loaded first; then
                # the real one replaces it with the SAME modification time (cp -p,
                # archive extraction, coarse timestamps): the map must hold what
                # the file holds when it is loaded
                other = (img.max() - img[::-1, ::-1] + (1 if img.max() == img.min() else 0)).astype(img.dtype)
                cv2.imwrite(path, other)
                st0 = os.stat(path)
                RasterHeightMap.from_path(path).get_depth_at(0, 0)
                cv2.imwrite(path, img)
                os.utime(path, ns=(st0.st_atime_ns, st0.st_mtime_ns))
                cl.add("file_replaced_with_same_mtime")
            else:
                cv2.imwrite(path, img)
            hm = RasterHeightMap.from_path(path)
            cl.add("raster_from_png")
        else:
            hm = RasterHeightMap(img)
    finally:
        if tmp:
            shutil.rmtree(tmp, ignore_errors=True)
    h, w = img.shape
    scale, tol = c["scale"], c["tol"]
    hm.set_scale(scale)
    hm.set_tolerance(tol)
    if hm.get_width() != w or hm.get_height() != h:
        raise Violation(f"width/height {hm.get_width()}x{hm.get_height()} for a {w}x{h} image")
    eps = 2e-5 * scale
    for (fx, fy) in c["centres"]:
        col, row = int(fx * w) % w, int(fy * h) % h
        got = hm.get_depth_at(col, row)
        exp = scale * float(img[row, col]) / mx
        if abs(got - exp) > eps:
            raise Violation(f"get_depth_at(col={col}, row={row}) = {got!r}, stored height "
                            f"scale*img[row,col]/max = {exp!r} ({c['dtype']} {w}x{h})")
    lo, hi = scale * float(img.min()) / mx, scale * float(img.max()) / mx
    for (ox, oy) in c["outside"]:
        for (x, y) in ((-abs(ox) - 1e-9, oy % h), (w + abs(ox), oy % h), (ox % w, -abs(oy) - 1e-9),
                       (ox % w, h + abs(oy)), (float(w), 0.0), (0.0, float(h))):
            got = hm.get_depth_at(x, y)
            if got != 0.0:
                raise Violation(f"get_depth_at({x}, {y}) = {got!r} outside a {w}x{h} image")
    # path
    x1, y1, x2, y2 = c["line"]
    what = f"raster {w}x{h} sample_path({c['line']}) tol={tol}"
    pts = hm.sample_path([x1, y1, x2, y2])
    r = [round(v) for v in (x1, y1, x2, y2)]
    dense = line_pixels(*r)
    first, last = tuple(pts[0][:2]), tuple(pts[-1][:2])
    if first != (r[0], r[1]) or last != (r[2], r[3]):
        raise Violation(f"{what}: path runs from {first} to {last}, requested ends "
                        f"{(r[0], r[1])} .. {(r[2], r[3])}")
    kept_idx, j = [], 0
    for p in pts:
        xy = (int(p[0]), int(p[1]))
        if p[0] != xy[0] or p[1] != xy[1]:
            raise Violation(f"{what}: non-integer pixel {tuple(p)}")
        while j < len(dense) and xy not in dense[j]:
            j += 1
        if j >= len(dense):
            raise Violation(f"{what}: point {xy} is not a pixel of the line at or after "
                            "the previous point (not on the line / out of order)")
        kept_idx.append(j)
        j += 1
        z = hm.get_depth_at(xy[0], xy[1])
        if p[2] != z:
            raise Violation(f"{what}: point {tuple(p)} does not carry the map's height {z!r}")
    zs = []
    for cand in dense:
        zs.append(hm.get_depth_at(*next(iter(cand))) if len(cand) == 1 else None)
    for k, j in enumerate(kept_idx):
        zs[j] = float(pts[k][2])
    dropped, kept = check_drop_rule(kept_idx, zs, tol, what)
    if img.min() != img.max() and dropped and kept:
        cl.add("NT")
    cl.add("raster")
    # another map object with other data / scale / tolerance, used meanwhile
    other = RasterHeightMap(np.full((5, 7), 200, dtype=np.uint8))
    other.set_scale(scale * 3.0 + 1.0)
    other.set_tolerance(tol * 2.0 + 0.5)
    other.get_depth_at(1, 1)
    other.sample_path([0, 0, 4, 4])
    for (fx, fy) in c["centres"][:2]:
        col, row = int(fx * w) % w, int(fy * h) % h
        got = hm.get_depth_at(col, row)
        exp = scale * float(img[row, col]) / mx
        if abs(got - exp) > eps:
            raise Violation(f"after another RasterHeightMap was used: get_depth_at(col={col}, "
                            f"row={row}) = {got!r}, expected {exp!r}")
    # the same map object after a scale change: nothing may be remembered
    s2 = c.get("scale2")
    if s2:
        hm.set_scale(s2)
        for (fx, fy) in c["centres"]:
            col, row = int(fx * w) % w, int(fy * h) % h
            got = hm.get_depth_at(col, row)
            exp = s2 * float(img[row, col]) / mx
            if abs(got - exp) > 2e-5 * s2:
                raise Violation(f"after set_scale({s2}) (was {scale}) get_depth_at(col={col}, "
                                f"row={row}) = {got!r}, expected {exp!r}")
        cl.add("scale_changed_after_queries")
    if c["pattern"] != "constant":
        cl.add("non_constant")


# ---------------------------------------------------------------------------
# sparse
# ---------------------------------------------------------------------------

def check_sparse(c, cl):
    from gscrib.heightmaps import SparseHeightMap
    pts = [(0.0, 0.0), (c["ax"], c["ay"] * 0.1), (c["bx"] * 0.1, c["by"])]
    for (i, j, jx, jy) in c["extra"]:
        pts.append((i * 7.0 + jx, j * 7.0 + jy))
    uniq = []
    for p in pts:
        if all(math.dist(p, q) > 0.5 for q in uniq):
            uniq.append(p)
    pts = uniq
    if len(pts) < 4:
        pts.append((c["ax"] * 0.6, c["by"] * 0.7))
    zs = [c["z"][i % len(c["z"])] for i in range(len(pts))]
    data = np.array([(x, y, z) for (x, y), z in zip(pts, zs)], dtype=float)
    tmp = None
    try:
        if c["via_file"]:
            tmp = tempfile.mkdtemp(prefix="c19-")
            path = os.path.join(tmp, "map.csv")
            np.savetxt(path, data, delimiter=",", fmt="%.17g")
            hm = SparseHeightMap.from_path(path)
            cl.add("sparse_from_csv")
        else:
            hm = SparseHeightMap(data)
    finally:
        if tmp:
            shutil.rmtree(tmp, ignore_errors=True)
    scale, tol = c["scale"], c["tol"]
    hm.set_scale(scale)
    hm.set_tolerance(tol)
    zmin, zmax = min(zs), max(zs)
    span = max(1.0, abs(zmin), abs(zmax))
    eps = 1e-9 * scale * span
    for (x, y), z in zip(pts, zs):
        got = float(hm.get_depth_at(x, y))
        if abs(got - scale * z) > eps:
            raise Violation(f"sparse get_depth_at({x}, {y}) = {got!r} at a stored sample "
                            f"with height {z!r} x scale {scale!r}")
    for wts in c["combos"]:
        tri = [pts[k % len(pts)] for k in wts["idx"]]
        a, b = wts["a"], wts["b"] * (1 - wts["a"])
        cw = (a, b, 1 - a - b)
        x = sum(w * p[0] for w, p in zip(cw, tri))
        y = sum(w * p[1] for w, p in zip(cw, tri))
        if min(cw) < 1e-3:
            continue          # too close to the hull boundary
        area = abs((tri[1][0] - tri[0][0]) * (tri[2][1] - tri[0][1]) -
                   (tri[2][0] - tri[0][0]) * (tri[1][1] - tri[0][1]))
        if area < 1e-3 * (1 + max(math.dist(tri[0], q) for q in tri[1:])) ** 2:
            continue          # repeated / collinear points: the combination lies on an
            #                   edge, possibly the hull boundary itself (not judged)
        got = float(hm.get_depth_at(x, y))
        if not (scale * zmin - eps <= got <= scale * zmax + eps):
            raise Violation(f"sparse get_depth_at({x}, {y}) = {got!r} inside the hull, "
                            f"outside [{scale * zmin!r}, {scale * zmax!r}]")
    cx = sum(p[0] for p in pts) / len(pts)
    cy = sum(p[1] for p in pts) / len(pts)
    R = max(math.dist((cx, cy), p) for p in pts)
    for ang in c["out_angles"]:
        x, y = cx + 1.5 * R * math.cos(ang) + math.cos(ang), cy + 1.5 * R * math.sin(ang) + math.sin(ang)
        got = float(hm.get_depth_at(x, y))
        if got != 0.0:
            raise Violation(f"sparse get_depth_at({x}, {y}) = {got!r} outside the data")
    # paths that start and end exactly ON stored samples (hull vertices included):
    # their ends carry the stored heights, as get_depth_at does there
    for i in range(len(pts)):
        j = (i + 1) % len(pts)
        for (a, za), (b, zb) in (((pts[i], zs[i]), (pts[j], zs[j])),
                                 ((pts[j], zs[j]), (pts[i], zs[i]))):
            if math.dist(a, b) / tol > 400:
                continue
            r = hm.sample_path([a[0], a[1], b[0], b[1]])
            for end, q, zq in ((r[0], a, za), (r[-1], b, zb)):
                if tuple(end[:2]) != q:
                    raise Violation(f"sparse sample_path({a + b}): end {tuple(end[:2])} is not "
                                    f"the requested line end {q}")
                if abs(float(end[2]) - scale * zq) > eps:
                    raise Violation(f"sparse sample_path({a + b}) tol={tol}: the end on the stored "
                                    f"sample {q} carries {float(end[2])!r}, stored height "
                                    f"{zq!r} x scale {scale!r}")
    cl.add("path_between_stored_samples")
    # path between two convex combinations (possibly leaving the hull)
    (f1, f2) = c["line_f"]
    p1 = (cx + (pts[1][0] - cx) * f1[0] + (pts[2][0] - cx) * f1[1],
          cy + (pts[1][1] - cy) * f1[0] + (pts[2][1] - cy) * f1[1])
    p2 = (cx + (pts[1][0] - cx) * f2[0] + (pts[2][0] - cx) * f2[1],
          cy + (pts[1][1] - cy) * f2[0] + (pts[2][1] - cy) * f2[1])
    d = math.dist(p1, p2)
    if d / tol > 2000:
        return
    what = f"sparse sample_path({p1 + p2}) tol={tol}"
    res = hm.sample_path([p1[0], p1[1], p2[0], p2[1]])
    n = max(int(d / tol), 1)
    if tuple(res[0][:2]) != p1 or tuple(res[-1][:2]) != p2:
        raise Violation(f"{what}: runs from {tuple(res[0][:2])} to {tuple(res[-1][:2])}")
    kept_idx, prev = [], -1
    for p in res:
        # parameter along the line, own equal-step sampling x1 + (x2-x1) k / n
        if d == 0:
            k = 0
        else:
            t = ((p[0] - p1[0]) * (p2[0] - p1[0]) + (p[1] - p1[1]) * (p2[1] - p1[1])) / (d * d)
            k = round(t * n)
        ex, ey = p1[0] + (p2[0] - p1[0]) * k / n, p1[1] + (p2[1] - p1[1]) * k / n
        if math.dist((p[0], p[1]), (ex, ey)) > 1e-9 * (1 + d):
            raise Violation(f"{what}: point {tuple(p)} is not one of the {n + 1} equal-step "
                            "samples of the line")
        if k <= prev and not (d == 0):
            raise Violation(f"{what}: points do not advance along the line")
        prev = k
        kept_idx.append(k)
        z = float(hm.get_depth_at(p[0], p[1]))
        if abs(p[2] - z) > eps:
            raise Violation(f"{what}: point {tuple(p)} does not carry the map's height {z!r}")
    zs_dense = []
    for k in range(n + 1):
        x, y = p1[0] + (p2[0] - p1[0]) * k / n, p1[1] + (p2[1] - p1[1]) * k / n
        zs_dense.append(float(hm.get_depth_at(x, y)))
    # heights within 1e-9 of the threshold are not judged (float noise in the re-derivation)
    for k, j in enumerate(kept_idx):
        zs_dense[j] = float(res[k][2])
    dropped, kept = check_drop_rule_soft(kept_idx, zs_dense, tol, what, eps)
    if zmin != zmax and dropped and kept:
        cl.add("NT")
    cl.add("sparse")
    other = SparseHeightMap(np.array([(0, 0, 5), (9, 0, 6), (0, 9, 7), (9, 9, 8), (x0 := pts[1][0], pts[1][1], -3.0)], dtype=float))
    other.set_scale(scale * 2.0 + 1.0)
    other.get_depth_at(x0, pts[1][1])
    other.get_depth_at(0.0, 0.0)
    for (x, y), z in zip(pts[:3], zs[:3]):
        got = float(hm.get_depth_at(x, y))
        if abs(got - scale * z) > eps:
            raise Violation(f"after another SparseHeightMap was used: get_depth_at({x}, {y}) = "
                            f"{got!r} at a stored sample with height {z!r} x scale {scale!r}")
    s2 = c.get("scale2")
    if s2:
        hm.set_scale(s2)
        for (x, y), z in zip(pts, zs):
            got = float(hm.get_depth_at(x, y))
            if abs(got - s2 * z) > 1e-9 * s2 * span:
                raise Violation(f"after set_scale({s2}) (was {scale}) sparse get_depth_at({x}, "
                                f"{y}) = {got!r} at a stored sample with height {z!r}")
        again = hm.sample_path([p1[0], p1[1], p2[0], p2[1]])
        for p in again:
            z = float(hm.get_depth_at(p[0], p[1]))
            if abs(p[2] - z) > 1e-9 * s2 * span:
                raise Violation(f"after set_scale({s2}) sample_path point {tuple(p)} does not "
                                f"carry the map's height {z!r}")
        cl.add("scale_changed_after_queries")


def check_drop_rule_soft(kept_idx, zs, tol, what, eps):
    zs2 = list(zs)
    kept = set(kept_idx)
    last_z = zs[kept_idx[0]]
    for j in range(1, len(zs)):
        if abs(abs(zs[j] - last_z) - tol) <= 10 * eps and j not in kept:
            zs2[j] = None
        if j in kept:
            last_z = zs[j]
    return check_drop_rule(kept_idx, zs2, tol, what)


def replay(case):
    cl = set()
    if case["kind"] == "raster":
        check_raster(case, cl)
    else:
        check_sparse(case, cl)


def raster_strategy():
    from hypothesis import strategies as st
    unit = st.floats(min_value=0.0, max_value=0.999)
    coord = st.one_of(st.integers(-3, 27).map(float),
                      st.floats(min_value=-3, max_value=27).filter(
                          lambda v: abs((v % 1) - 0.5) > 1e-6))
    return st.fixed_dictionaries({
        "kind": st.just("raster"),
        "dtype": st.sampled_from(["uint8", "uint16"]),
        "h": st.integers(4, 24), "w": st.integers(4, 24),
        "pattern": st.sampled_from(["constant", "gradient", "bytes", "bytes"]),
        "value": st.integers(0, 65535), "gx": st.integers(0, 4000), "gy": st.integers(0, 4000),
        "bytes": st.binary(min_size=1, max_size=200),
        "scale": st.one_of(st.just(1.0), st.floats(min_value=0.01, max_value=100.0)),
        "scale2": st.one_of(st.none(), st.floats(min_value=0.01, max_value=100.0)),
        "tol": st.one_of(st.floats(min_value=1e-3, max_value=0.5), st.floats(min_value=1e-4, max_value=50)),
        "via_file": st.sampled_from([False, False, True]),
        "centres": st.lists(st.tuples(unit, unit), min_size=1, max_size=6),
        "outside": st.lists(st.tuples(st.floats(min_value=0, max_value=30), st.floats(min_value=0, max_value=30)),
                            min_size=1, max_size=2),
        "line": st.tuples(coord, coord, coord, coord).map(list)})


def sparse_strategy():
    from hypothesis import strategies as st
    z = st.one_of(st.integers(-50, 50).map(float), st.floats(min_value=-1e3, max_value=1e3))
    frac = st.floats(min_value=0.02, max_value=0.98)
    return st.fixed_dictionaries({
        "kind": st.just("sparse"),
        "ax": st.floats(min_value=10, max_value=60), "ay": st.floats(min_value=-10, max_value=10),
        "bx": st.floats(min_value=-10, max_value=10), "by": st.floats(min_value=10, max_value=60),
        "extra": st.lists(st.tuples(st.integers(-6, 6), st.integers(-6, 6),
                                    st.floats(min_value=-2, max_value=2), st.floats(min_value=-2, max_value=2)),
                          min_size=1, max_size=8),
        "z": st.lists(z, min_size=1, max_size=11),
        "scale": st.one_of(st.just(1.0), st.floats(min_value=0.01, max_value=100.0)),
        "scale2": st.one_of(st.none(), st.floats(min_value=0.01, max_value=100.0)),
        "tol": st.floats(min_value=0.05, max_value=20.0),
        "via_file": st.sampled_from([False, False, True]),
        "combos": st.lists(st.fixed_dictionaries({
            "idx": st.lists(st.integers(0, 10), min_size=3, max_size=3), "a": frac, "b": frac}),
            min_size=1, max_size=5),
        "out_angles": st.lists(st.floats(min_value=0, max_value=6.28), min_size=1, max_size=3),
        "line_f": st.tuples(st.tuples(st.floats(min_value=-0.4, max_value=1.3), st.floats(min_value=-0.4, max_value=1.3)),
                            st.tuples(st.floats(min_value=-0.4, max_value=1.3), st.floats(min_value=-0.4, max_value=1.3))).map(
            lambda t: [list(t[0]), list(t[1])])})


def run_shard(ctx):
    n = 250 if ctx.tier == "quick" else 12000

    def body_r(case):
        cl = set()
        check_raster(case, cl)
        ctx.case(case, nontrivial="NT" in cl, classes=sorted(cl))

    run_hypothesis(ctx, raster_strategy(), body_r, n, sub="raster")

    def body_s(case):
        cl = set()
        check_sparse(case, cl)
        ctx.case(case, nontrivial="NT" in cl, classes=sorted(cl))

    run_hypothesis(ctx, sparse_strategy(), body_s, n, sub="sparse")
