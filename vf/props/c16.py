"""C16 — direct-write statements are delivered synchronously and errors surface.

SerialWriter over a simulated serial port and SocketWriter over a loopback TCP
server, both backed by the firmware simulator.  Synchrony is decided without
timing: the device *withholds* the acknowledgement of a statement until a
controller releases it, and the controller releases only after observing that
write() has not returned.  A write() that returns while its own
acknowledgement is still withheld is a violation whatever the scheduler did.
"""

import threading
import time

from vf.runner import Violation, HarnessError, run_hypothesis
from vf.firmware import Firmware, patched_serial, TcpFront, wait_handshake_drained

ID = "C16"
LEVEL = "fault_enumeration"
SHARDS = {"quick": 8, "thorough": 16}
RULE = ("cases = (transport serial|socket (device replies optionally cut into "
        "several TCP packets), greeting start|none|'Grbl 1.1', "
        "1..8 statements incl. M114/M105 queries whose report precedes the "
        "ok, per statement: acknowledgement withheld for 0..3 controller "
        "ticks, 0..2 unsolicited lines before it (busy echo, temperature "
        "auto-report, Grbl status, status lines that only contain the words ok / "
        "error / alarm / !! without starting with them), an error reply instead of the ack "
        "(error:20 / Error:.. / ALARM:1 / !! ..) at a chosen position, an "
        "unsolicited error/alarm line after an acknowledgement (must surface "
        "at the next write), "
        "connection loss at any position (later writes must raise, not hang), a "
        "second writer object in the same process whose device acknowledges "
        "while this one's acknowledgement is withheld; a short set_timeout() "
        "configured after connecting (the acknowledgement then takes longer "
        "than the timeout); handshake replies drained "
        "before the first statement, or (minority, counted) not); "
        "non-trivial = a case where some ack was withheld >=1 tick, or an "
        "error / unsolicited line / loss occurred; distinct by SHA-1")
ASSUMPTIONS = [
    "the harness controls when each device reply becomes readable; thread "
    "interleavings inside printcore/PrintrunWriter are the OS's",
    "the deciding runs call connect() and let the replies of the connect "
    "handshake (G4 P0 probe, M110 resets) be consumed before the first "
    "statement; first writes issued while those are unread belong to the "
    "recorded finding 'handshake-oks-shift-acks' and are counted as excluded",
    "Marlin-style 'Error:' followed by an extra 'ok' is not generated (the "
    "extra ok is the device's doing)",
    "a write() or disconnect() that has not returned 4 s after its "
    "acknowledgement was released is a hang (violation)",
]
TECHNIQUE = ("fault-injection property testing (Hypothesis statement "
             "sequences x device behaviours) with a withheld-acknowledgement "
             "controller against a device simulator, both transports")
LEVEL_TEXT = ("Generated statement sequences and device behaviours (latency "
              "by withheld acks, unsolicited lines, error replies, connection "
              "loss) over both transports; synchrony decided by withholding "
              "the acknowledgement, not by timing. Fault enumeration over the "
              "device's choices; internal thread schedules are not enumerated.")

KNOWN_ID = "handshake-oks-shift-acks"
STATEMENTS = ["G1 X{i} Y2 F1500", "G0 Z{i}", "M104 S{i}", "M114", "M105", "G92 E{i}",
              "M400", "G4 P{i}", "M3 S{i}", "M5",
              # interior runs of blanks and tabs must arrive unmodified
              "M117 Layer  {i} of   10", "G1 X{i}\tY2\t F300"]
UNSOLICITED = ["echo:busy: processing", " T:200.0 /210.0 B:60.0 /60.0 @:64",
               "<Idle|MPos:1.000,2.000,3.000|FS:0,0>", "wait", "//action:notification",
               # status lines that merely CONTAIN ok / error / alarm words: neither an
               # acknowledgement nor an error (both are defined by how a reply STARTS)
               "echo:SD card ok", "echo:Settings stored (562 bytes; crc 5834) ok",
               "[MSG:Check ok]", "echo:last error: none", "[MSG:Reset to clear alarm state]",
               "echo:!! is not a command"]
ERRORS = ["error:20", "Error:Printer halted. kill() called!", "ALARM:1", "!! halted",
          "error: Unknown command"]
TICK = 0.012


def render(case):
    out = []
    for i, st_ in enumerate(case["stmts"]):
        out.append(STATEMENTS[st_["s"] % len(STATEMENTS)].format(i=i + 1) +
                   ("" if st_["s"] % len(STATEMENTS) in (3, 4) else f" ;#{i}"))
    # make every statement text unique so behaviours can be keyed by text
    return [f"{t}" if t not in out[:k] else f"{t} " + "P" + str(k) for k, t in enumerate(out)]


def run_case(case, cl=None):
    from gscrib.writers import SerialWriter, SocketWriter
    from gscrib.excepts import DeviceError
    cl = set() if cl is None else cl
    texts = [t.split(" ;#")[0] if False else t for t in render(case)]
    sent_texts = [t.strip() for t in texts]
    behaviours = {}
    for k, (st_, txt) in enumerate(zip(case["stmts"], sent_texts)):
        b = {"gate": f"g{k}"}
        if st_.get("unsolicited"):
            b["unsolicited"] = [UNSOLICITED[u % len(UNSOLICITED)] for u in st_["unsolicited"]]
        if st_.get("error") is not None:
            b["error"] = ERRORS[st_["error"] % len(ERRORS)]
        if st_.get("lose"):
            b["lose"] = True
        if st_.get("alarm_after") is not None and not b.get("error") and not b.get("lose"):
            b["after"] = [ERRORS[st_["alarm_after"] % len(ERRORS)]]
        if txt.startswith("M114"):
            b["report"] = f"X:{k + 1}.50 Y:2.00 Z:3.00 E:0.00 Count X:80 Y:160 Z:1200"
            if st_.get("grbl_report"):
                # the answer is a Grbl-style list with negative later coordinates
                b["report"] = f"<Idle|MPos:{k + 1}.500,-2.250,-3.125|FS:0,0>"
        if txt.startswith("M105"):
            b["report"] = f"ok T:{200 + k}.0 /210.0 B:60.0 /60.0" if st_.get("okline") \
                else f"T:{200 + k}.0 /210.0 B:60.0 /60.0"
        behaviours[txt] = b
    hl = case.get("handshake_latency", 0)
    if case["drain"] and case["greeting"] and case["greeting"].startswith("Grbl"):
        # Without line numbers printcore sends no M110, and the print thread it
        # starts during connect() only proceeds on the next 'ok': if the probe's
        # ok was consumed before, connect() never returns (outside C16; noted in
        # DESIGN.md).  Keep the probe's ok back until connect() is waiting.
        behaviours["G4 P0"] = {"gate": "hs"}
    fw = Firmware(greeting=case["greeting"], behaviours=behaviours,
                  latency=(lambda i: hl) if not case["drain"] else (lambda i: 0))
    front = None
    results = []
    state = {}
    desc = f"transport={case['transport']} greeting={case['greeting']!r} statements={sent_texts!r}"

    def session():
        if case["transport"] == "serial" and case.get("restart"):
            # the writer class both wrappers delegate to, used directly: its
            # disconnect() takes the wait flag
            from gscrib.writers import PrintrunWriter
            w = PrintrunWriter("serial", "none", "/dev/ttyVERIF", 115200)
        elif case["transport"] == "serial":
            w = SerialWriter("/dev/ttyVERIF", 115200)
        else:
            w = SocketWriter("127.0.0.1", front.port)
        w.set_timeout(8.0)
        w2 = fw2 = None
        builder = None
        if case.get("via_builder"):
            # statements handed to the writer by a builder it was added to: the
            # same delivery, acknowledgement and error behaviour is expected
            import gscrib
            builder = gscrib.GCodeBuilder(line_endings="\\n")
            builder.add_writer(w)
            cl.add("statements_written_through_a_builder")
        try:
            if case["drain"]:
                if "G4 P0" in behaviours:
                    threading.Timer(0.25, lambda: fw.release("hs")).start()
                done = run_with_timeout(w.connect, 12.0)
                if done[0] == "hang":
                    state["skip"] = "connect() did not return"
                    return
                if done[0] == "exc" and case.get("frag") and case["transport"] == "socket":
                    # the device's greeting and handshake replies arrive cut into
                    # several packets: a sender that cannot put them together
                    # never comes online
                    raise Violation(f"connect() failed although the device answered (replies "
                                    f"cut into several TCP packets, {case['frag']}): {done[1]!r}; {desc}")
                if done[0] == "exc":
                    raise HarnessError(f"connect() failed against the simulator: {done[1]!r}")
                wait_handshake_drained(fw)
            pending_alarm = None
            if case.get("second_writer") and case["transport"] == "serial" and case["drain"]:
                # another writer object in the same process, talking to its own
                # device: its acknowledgements must not release this writer
                from vf.firmware import FakeSerial
                fw2 = Firmware(greeting="start")
                FakeSerial.firmware = fw2
                w2 = SerialWriter("/dev/ttyVERIF2", 115200)
                w2.set_timeout(8.0)
                if run_with_timeout(w2.connect, 12.0)[0] != "ok":
                    raise HarnessError("second writer could not connect to its simulator")
                t0 = time.time()
                while fw2.pending() and time.time() - t0 < 3:
                    time.sleep(0.004)
                time.sleep(0.05)
                cl.add("second_writer_in_process")
            if case.get("short_timeout"):
                # a short "timeout for device operations" configured after the
                # connection is up: an acknowledgement that takes longer must
                # still be awaited (or the timeout raised), never skipped
                w.set_timeout(0.02)
                cl.add("short_writer_timeout")
            for k, (st_, txt) in enumerate(zip(case["stmts"], sent_texts)):
                gate = f"g{k}"
                box = {}
                if case.get("restart") and case["transport"] == "serial" and case["drain"] \
                        and k == case["restart"]["at"] % len(sent_texts) and k > 0 \
                        and not fw.lost and pending_alarm is None:
                    # the session is closed (waiting or not) and the SAME writer
                    # object is connected again: later statements are delivered
                    # and acknowledged as before
                    with fw.lock:
                        m110_before = sum(1 for l in fw.rx if "M110" in l)
                    r = run_with_timeout(lambda: w.disconnect(case["restart"]["wait"]), 6.0)
                    if r[0] == "hang":
                        raise Violation(f"disconnect({case['restart']['wait']}) did not return; {desc}")
                    from vf.firmware import FakeSerial
                    FakeSerial.firmware = fw       # (a second writer may have pointed it elsewhere)
                    if "G4 P0" in behaviours:      # Grbl: hold the probe's ok back again
                        with fw.lock:
                            fw.gates["hs"] = threading.Event()
                        threading.Timer(0.25, lambda: fw.release("hs")).start()
                    r = run_with_timeout(w.connect, 12.0)
                    if r[0] != "ok":
                        raise Violation(f"connect() after disconnect({case['restart']['wait']}) on "
                                        f"the same writer: {r!r}; {desc}")
                    wait_handshake_drained(fw, m110_before)
                    cl.add("writer_reconnected_after_disconnect_" +
                           ("wait" if case["restart"]["wait"] else "nowait"))
                lost_before = fw.lost
                if pending_alarm is not None:
                    # let the reader consume the unsolicited error line first
                    t0 = time.time()
                    while fw.pending() and time.time() - t0 < 3:
                        time.sleep(0.003)
                    time.sleep(0.02)

                def call(txt=txt, box=box):
                    try:
                        if builder is not None:
                            builder.write(texts[k])      # through a builder the writer was added to
                        else:
                            w.write((texts[k] + "\n").encode("utf-8"))
                        box["r"] = ("ok", None)
                    except BaseException as e:
                        box["r"] = ("exc", e)
                th = threading.Thread(target=call, daemon=True)
                th.start()
                # wait until the device has the statement and holds its reply
                t0 = time.time()
                while time.time() - t0 < 6.0:
                    if fw.gate_waiting(gate) or "r" in box or fw.lost:
                        break
                    time.sleep(0.002)
                got = [l for (_, l, _) in fw.stmt_log if l == txt]
                if "r" in box and fw.gate_waiting(gate) is False and not got and not fw.lost:
                    pass
                held = fw.gate_waiting(gate)
                if held:
                    ticks = st_.get("hold", 0)
                    # with a short writer timeout the acknowledgement is held
                    # back beyond the writer's own polling period (0.1 s)
                    tick = 0.065 if case.get("short_timeout") else TICK
                    t1 = time.time()
                    while time.time() - t1 < tick * ticks:
                        if "r" in box:
                            break
                        time.sleep(0.002)
                    if ticks:
                        cl.add("ack_withheld")
                    if w2 is not None and st_.get("poke") and "r" not in box:
                        # the OTHER writer completes a statement meanwhile
                        r2 = run_with_timeout(lambda: w2.write(b"M400\n"), 5.0)
                        if r2[0] != "ok":
                            raise HarnessError(f"second writer's own write failed: {r2!r}")
                        time.sleep(0.03)
                        cl.add("other_writer_acked_while_withheld")
                    if "r" in box and case.get("short_timeout") and box["r"][0] == "exc" \
                            and type(box["r"][1]).__name__ == "DeviceTimeoutError":
                        # a timeout surfaced as an exception is not "returning
                        # before the acknowledgement": tolerated, case ends here
                        cl.add("timeout_raised_instead_of_waiting")
                        fw.release(gate)
                        return
                    if "r" in box and pending_alarm is not None and box["r"][0] == "exc" \
                            and isinstance(box["r"][1], DeviceError) \
                            and pending_alarm.strip() in str(box["r"][1]):
                        # the unsolicited error line of the previous statement was
                        # read only after this statement had gone out: it surfaces
                        # here, once, which is what the property asks
                        cl.add("unsolicited_error_surfaced_while_next_statement_pending")
                        fw.release(gate)
                        pending_alarm = behaviours[txt]["after"][0] if behaviours[txt].get("after") else None
                        results.append("exc")
                        continue
                    if "r" in box:
                        raise Violation(
                            f"write({txt!r}) returned ({box['r'][0]}) while the device was "
                            f"still withholding its acknowledgement (statement #{k}); {desc}")
                fw.release(gate)
                th.join(4.0)
                if th.is_alive():
                    raise Violation(f"write({txt!r}) did not return within 4 s after its "
                                    f"reply was released (statement #{k}, lost={fw.lost}); {desc}")
                kind, exc = box["r"]
                b = behaviours[txt]
                if lost_before:
                    # the connection was lost at an earlier statement: every
                    # later write must raise instead of hanging (checked by the
                    # join above) or returning as if it had been delivered
                    cl.add("write_after_connection_loss")
                    if kind != "exc":
                        raise Violation(f"write({txt!r}) returned normally although the "
                                        f"connection was lost at an earlier statement; {desc}")
                    results.append(kind)
                    continue
                if pending_alarm is not None and not b.get("lose"):
                    cl.add("unsolicited_error_between_statements")
                    if kind != "exc" or not isinstance(exc, DeviceError):
                        raise Violation(
                            f"the device sent {pending_alarm!r} after acknowledging the "
                            f"previous statement, but the next write({txt!r}) returned "
                            f"{kind} {exc!r} instead of raising a DeviceError; {desc}")
                    pending_alarm = b["after"][0] if b.get("after") else None
                    results.append(kind)
                    continue
                pending_alarm = b["after"][0] if b.get("after") else None
                if pending_alarm is not None and kind == "exc" and isinstance(exc, DeviceError) \
                        and pending_alarm.strip() in str(exc) and not b.get("error"):
                    # the unsolicited line overtook the return of this very write():
                    # it has surfaced (once), which is all the property asks
                    cl.add("unsolicited_error_surfaced_at_same_statement")
                    pending_alarm = None
                    results.append(kind)
                    continue
                if b.get("error"):
                    cl.add("error_reply")
                    if kind != "exc" or not isinstance(exc, DeviceError):
                        raise Violation(f"device answered {b['error']!r} to {txt!r} but "
                                        f"write() returned {kind} {exc!r}; {desc}")
                elif b.get("lose"):
                    cl.add("connection_loss")
                    if kind != "exc":
                        raise Violation(f"connection lost at {txt!r} but write() returned "
                                        f"normally; {desc}")
                else:
                    if kind == "exc":
                        raise Violation(f"write({txt!r}) raised {exc!r} although the device "
                                        f"acknowledged it; {desc}")
                    if txt.startswith("M114") and st_.get("grbl_report"):
                        got3 = tuple(w.get_parameter(a_) for a_ in "XYZ")
                        if got3 != (k + 1.5, -2.25, -3.125):
                            raise Violation(f"after write('M114') returned, X/Y/Z read {got3!r}; the "
                                            f"device reported {b['report']!r}; {desc}")
                        cl.add("query_reading_checked")
                    elif txt.startswith("M114"):
                        x = w.get_parameter("X")
                        if x != k + 1.5:
                            raise Violation(f"after write('M114') returned get_parameter('X') "
                                            f"= {x!r}, the device reported X:{k + 1}.50; {desc}")
                        cl.add("query_reading_checked")
                    if txt.startswith("M105"):
                        tv = w.get_parameter("T")
                        if tv != 200.0 + k:
                            raise Violation(f"after write('M105') returned get_parameter('T') "
                                            f"= {tv!r}, the device reported T:{200 + k}.0; {desc}")
                        cl.add("query_reading_checked")
                if b.get("unsolicited"):
                    cl.add("unsolicited_lines")
                results.append(kind)
        except BaseException:
            state["failed"] = True
            raise
        finally:
            for g_ in list(fw.gates):
                fw.release(g_)
            if w2 is not None:
                run_with_timeout(lambda: w2.disconnect(True), 6.0)
            d = run_with_timeout(lambda: w.disconnect(True), 6.0)
            if d[0] == "hang" and not fw.lost and not state.get("failed") \
                    and not state.get("skip"):
                raise Violation(f"disconnect(wait=True) did not return; {desc}")
        if state.get("skip"):
            return
        # device receive log: statements once each, in call order
        log = [l for (_, l, _) in fw.stmt_log if l not in ("G4 P0", "M110 N-1")]
        exp = list(sent_texts)
        if fw.lost:
            exp = exp[:len(log)] if log == exp[:len(log)] else exp
        if log != exp:
            raise Violation(f"device received {log!r}, statements written were {exp!r}; {desc}")
        trailing_unsolicited = bool(behaviours[sent_texts[-1]].get("after"))
        if fw.pending() and not fw.lost and not trailing_unsolicited:
            raise Violation(f"disconnect(wait=True) returned with {fw.pending()} device "
                            f"replies still unread; {desc}")

    if case["transport"] == "serial":
        with patched_serial(fw):
            session()
    else:
        frag = case.get("frag")
        split = None
        if frag == "lf_alone":        # the newline travels in a packet of its own
            split = lambda b: [b[:-1], b[-1:]]
        elif frag == "halves":
            split = lambda b: [b[:len(b) // 2], b[len(b) // 2:]]
        if frag:
            cl.add("device_replies_fragmented")
        front = TcpFront(fw, split)
        try:
            session()
        finally:
            front.close()
    if state.get("skip"):
        cl.add("SKIPPED:" + state["skip"])
        return cl
    cl.add("transport:" + case["transport"])
    cl.add("greeting:" + str(case["greeting"]))
    if cl & {"ack_withheld", "error_reply", "connection_loss", "unsolicited_lines",
             "unsolicited_error_between_statements"}:
        cl.add("NT")
    return cl


def run_with_timeout(fn, timeout):
    box = {}

    def call():
        try:
            box["r"] = ("ok", fn())
        except BaseException as e:
            box["r"] = ("exc", e)
    th = threading.Thread(target=call, daemon=True)
    th.start()
    th.join(timeout)
    if th.is_alive():
        return ("hang", None)
    return box["r"]


def in_known_class(case):
    """Recorded finding: the replies of the connect handshake are not awaited;
    a first write issued while they are unread is acknowledged by a stale ok
    and every later write returns one or two acks early."""
    return not case["drain"]


class _SlowSink(__import__("logging").Handler):
    """Swallows the sender's log records, but takes its time over ERROR
    records the way a terminal or a log file does: the library logs from its
    reader thread *between* two updates of shared state, and a handler that
    returns instantly would hide the interleavings a real sink produces."""

    def emit(self, record):
        if record.levelno >= 40:
            time.sleep(0.002)


def _quiet():
    # the sender logs every lost connection at ERROR level; without a handler
    # Python's last-resort handler would print hundreds of lines to stderr
    import logging
    lg = logging.getLogger("gscrib")
    if not any(isinstance(h, _SlowSink) for h in lg.handlers):
        lg.addHandler(_SlowSink())


def replay(case):
    _quiet()
    for _ in range(3):        # thread timing: give a failure three chances to show
        run_case(case)


def strategy():
    from hypothesis import strategies as st
    stmt = st.fixed_dictionaries({
        "s": st.integers(0, 11), "hold": st.integers(0, 3)}, optional={
        "poke": st.booleans(),
        "unsolicited": st.lists(st.integers(0, len(UNSOLICITED) - 1), min_size=1, max_size=2),
        "error": st.integers(0, 4), "okline": st.booleans(),
        "alarm_after": st.integers(0, 4)})
    # a query whose answer is preceded by an unsolicited line carrying the same
    # letters (M114 after a Grbl status with MPos, M105 after a temperature
    # auto-report): the reading must be the one of the query's own report
    grblq = st.integers(0, 3).map(lambda h: {"s": 3, "hold": h, "grbl_report": True})
    conflict = st.tuples(st.sampled_from([(3, 2), (4, 1), (3, 1), (4, 2)]), st.integers(0, 3)).map(
        lambda t: {"s": t[0][0], "hold": t[1], "unsolicited": [t[0][1]]})
    from vf.hist import weighted
    # a temperature query answered on the acknowledgement line itself
    # ("ok T:.. /.. B:.."): the reading belongs to that very statement
    okq = st.integers(0, 3).map(lambda h: {"s": 4, "hold": h, "okline": True})
    stmt = weighted((7, stmt), (1, conflict), (1, okq), (1, grblq))
    return st.fixed_dictionaries({
        "transport": st.sampled_from(["serial", "serial", "socket"]),
        "greeting": st.sampled_from(["start", None, "Grbl 1.1"]),
        "stmts": st.lists(stmt, min_size=1, max_size=8),
        "drain": st.sampled_from([True] * 9 + [False]),
        "handshake_latency": st.sampled_from([0, 40, 120]),
        "second_writer": st.sampled_from([False, False, True]),
        "short_timeout": st.sampled_from([False, False, True]),
        "frag": st.sampled_from([None, None, "lf_alone", "halves"]),
        "via_builder": st.sampled_from([False, False, True]),
        "restart": st.one_of(st.none(), st.none(), st.none(), st.fixed_dictionaries(
            {"at": st.integers(1, 7), "wait": st.booleans()})),
        "lose_last": st.one_of(st.just(False), st.just(False), st.just(True),
                               st.integers(0, 7))}).map(_finish)


def _finish(c):
    la = c.pop("lose_last")
    if la:
        k = -1 if la is True else la % len(c["stmts"])
        c["stmts"][k] = dict(c["stmts"][k], lose=True)
        c["stmts"][k].pop("error", None)
    # at most two error replies per case keeps sessions short
    errs = [i for i, s_ in enumerate(c["stmts"]) if "error" in s_]
    for i in errs[2:]:
        c["stmts"][i].pop("error")
    return c


def run_shard(ctx):
    n = 18 if ctx.tier == "quick" else 800
    _quiet()

    def body(case):
        cl = set()
        try:
            run_case(case, cl)
        except Violation:
            if in_known_class(case):
                ctx.excluded(KNOWN_ID)
                return
            raise
        if any(c.startswith("SKIPPED") for c in cl):
            ctx.inconclusive += 1
            return
        if not case["drain"]:
            ctx.count("first_write_without_drain_held")
        ctx.case(case, nontrivial="NT" in cl, classes=sorted(cl), steps=len(case["stmts"]))

    run_hypothesis(ctx, strategy(), body, n, shrink_budget=25 if ctx.tier == "quick" else 120)
