"""C08 — every emitted line is one well-formed block with faithful numbers.

Three generators, one oracle:
 (i)   DefaultFormatter.number over (value, decimal_places) pairs;
 (ii)  every emitting builder command under a generated configuration
       (decimal places, axis relabelling, comment style, line ending);
 (iii) thorough: atheris, 8 bytes -> double bit pattern, 1 byte -> dp.

Oracle: the bytes parse under the independent block grammar with exactly the
expected number of once-terminated lines; each numeric word is within half a
unit of the last configured decimal of the requested value (or round-trips to
the very same float of the value's dtype — shortest-repr printing); a
non-finite value raises ValueError and writes nothing.
"""

import math
import struct
from fractions import Fraction

from vf.runner import Violation, HarnessError, run_hypothesis
from vf import gcode_lex
from vf.common import Session, apply_call, word_faithful

ID = "C08"
LEVEL = "exploration"
SHARDS = {"quick": 8, "thorough": 16}
RULE = ("cases = (value descriptor, dp 0..12) for number(); (configuration, "
        "1..6 builder calls with value descriptors, decimal places changed / an "
        "axis renamed / a new formatter object installed in the middle of the "
        "program) for the builder; value "
        "classes: +-0, subnormal, |v|<U, within 2 ulp of a rounding tie "
        "(k+1/2)*10^-dp, integers up to 1e15, arbitrary finite doubles, numpy "
        "float16/32/64 and int8..64/uint scalars, python ints, non-finite; "
        "non-trivial = a value whose shortest repr has more than dp decimals, "
        "or a tie-class value, or |v|>=1e9, or 0<|v|<U, or a non-finite value "
        "(rejection path), or for builder cases a non-default configuration "
        "with such a value; distinct by SHA-1 of the case")
ASSUMPTIONS = [
    "booleans, None and string parameter values are outside the property's "
    "domain (strings are passed through verbatim by design)",
    "through the builder API typeguard admits python floats/ints and numpy "
    "float64 only (other numpy dtypes raise TypeCheckError before anything "
    "is formatted); all numpy dtypes are exercised on number() directly",
    "values are matched by letter in absolute mode without a transform",
]
TECHNIQUE = ("property-based testing (Hypothesis) with an independent block "
             "lexer and exact rational comparison + atheris bit-pattern fuzzing")
LEVEL_TEXT = ("Generated-input search over IEEE doubles/ints/numpy scalars "
              "aimed at the rounding boundaries, and over every emitting "
              "command under generated configurations; each output re-lexed "
              "by an independent grammar and compared in exact arithmetic. "
              "Exploration: volume and class distribution are in the evidence.")

NP_TYPES = ["float16", "float32", "float64", "int8", "int16", "int32",
            "int64", "uint8", "uint16", "uint32"]


# ---------------------------------------------------------------------------
# value descriptors
# ---------------------------------------------------------------------------

def resolve(d, dp):
    import numpy as np
    t = d["t"]
    if t == "f":
        v = float(d["v"])
    elif t == "int":
        return -abs(int(d["v"])) if d.get("neg") else int(d["v"])
    elif t == "tie":
        v = (d["k"] + 0.5) / (10.0 ** dp)
        off = d["off"]
        for _ in range(abs(off)):
            v = math.nextafter(v, math.inf if off > 0 else -math.inf)
        if d.get("neg"):
            v = -v
    elif t == "tiny":
        v = d["m"] * 0.5 / (10.0 ** dp)
        if d.get("neg"):
            v = -v
    elif t == "nptie":
        # a float16/float32 next to a rounding tie of the configured precision
        dt = np.dtype(d["dt"])
        with np.errstate(over="ignore"):
            x = dt.type((d["k"] + 0.5) / (10.0 ** dp))
            for _ in range(abs(d["off"])):
                x = np.nextafter(x, dt.type(np.inf if d["off"] > 0 else -np.inf))
        if d.get("neg") and not d.get("nonneg"):
            x = -x
        return x
    elif t == "np":
        dt = np.dtype(d["dt"])
        if dt.kind == "f":
            with np.errstate(over="ignore"):
                x = dt.type(d["v"])
            if d.get("nonneg"):
                x = abs(x)
            return x
        info = np.iinfo(dt)
        iv = int(d["v"]) if math.isfinite(d["v"]) else 0
        iv = max(info.min, min(info.max, iv))
        if d.get("nonneg"):
            iv = abs(iv) if abs(iv) <= info.max else info.max
        return dt.type(iv)
    else:
        raise HarnessError("bad descriptor %r" % (d,))
    if d.get("nonneg"):
        v = abs(v)
    return v


def value_classes(d, v, dp):
    import numpy as np
    cl = []
    try:
        fv = float(v)
    except Exception:
        return cl
    if not math.isfinite(fv):
        return ["nonfinite"]
    if d["t"] in ("tie", "nptie"):
        cl.append("tie")
    U = 0.5 / 10.0 ** dp
    if 0 < abs(fv) < U:
        cl.append("below_half_unit")
    if abs(fv) >= 1e9:
        cl.append("huge")
    if fv == 0:
        cl.append("zero")
    elif abs(fv) < 2.3e-308:
        cl.append("subnormal")
    if isinstance(v, np.generic):
        cl.append("numpy:" + v.dtype.name)
    if isinstance(v, int) and not isinstance(v, bool):
        cl.append("pyint")
    if isinstance(v, (float, np.floating)):
        r = repr(float(v))
        if "e" not in r and "." in r and len(r.split(".")[1]) > dp:
            cl.append("more_decimals_than_dp")
        elif "e-" in r:
            cl.append("more_decimals_than_dp")
    return cl


NONTRIVIAL = {"tie", "below_half_unit", "huge", "more_decimals_than_dp",
              "nonfinite", "subnormal"}


def value_strategy(nonneg=False, allow_np=True, small=False, np_types=None):
    from hypothesis import strategies as st
    lim = 255.0 if small else 1e15
    fl = st.one_of(
        st.floats(min_value=-lim, max_value=lim, allow_nan=False),
        st.floats(min_value=-1000, max_value=1000, allow_nan=False),
        st.sampled_from([0.0, -0.0, 5e-324, -5e-324, 2.2e-308, 1e-7, 0.1, 0.5,
                         1e15, -1e15, 123456789.123456789, 1e9, 0.05, 0.005]),
        st.integers(-10 ** 6, 10 ** 6).map(lambda k: k / 8.0),
    ).map(lambda v: {"t": "f", "v": max(-lim, min(lim, v))})
    nonfin = st.sampled_from([float("nan"), float("inf"), float("-inf")]).map(
        lambda v: {"t": "f", "v": v})
    ints = st.one_of(st.integers(0, min(1000, int(lim))), st.integers(0, int(lim))).flatmap(
        lambda v: st.booleans().map(lambda n: {"t": "int", "v": v, "neg": n}))
    tie = st.tuples(st.integers(0, 10 ** 6 if not small else 200),
                    st.integers(-2, 2), st.booleans()).map(
        lambda t: {"t": "tie", "k": t[0], "off": t[1], "neg": t[2]})
    tiny = st.tuples(st.floats(min_value=0.001, max_value=0.999),
                     st.booleans()).map(
        lambda t: {"t": "tiny", "m": t[0], "neg": t[1]})
    opts = [fl, fl, ints, tie, tie, tiny, nonfin]
    if allow_np:
        npv = st.tuples(st.sampled_from(np_types or NP_TYPES),
                        st.one_of(st.floats(min_value=-lim, max_value=lim,
                                            allow_nan=False),
                                  st.integers(-300, 300).map(float),
                                  st.just(float("nan")), st.just(float("inf")))
                        ).map(lambda t: {"t": "np", "dt": t[0], "v": t[1]})
        nptie = st.tuples(st.sampled_from([t for t in (np_types or NP_TYPES) if t.startswith("float")]),
                          st.integers(0, 2000 if not small else 200), st.integers(-2, 2),
                          st.booleans()).map(
            lambda t: {"t": "nptie", "dt": t[0], "k": t[1], "off": t[2], "neg": t[3]})
        opts += [npv, npv, nptie]
    s = st.one_of(*opts)
    if nonneg:
        s = s.map(lambda d: dict(d, nonneg=True, neg=False))
    return s


# ---------------------------------------------------------------------------
# (i) number()
# ---------------------------------------------------------------------------

def check_number(desc, dp):
    from gscrib.formatters import DefaultFormatter
    f = DefaultFormatter()
    f.set_decimal_places(dp)
    v = resolve(desc, dp)
    fin = math.isfinite(float(v))
    try:
        text = f.number(v)
    except ValueError as e:
        if fin:
            raise Violation(f"number({v!r}, dp={dp}) raised ValueError: {e}")
        return v
    except Exception as e:
        raise Violation(f"number({v!r}, dp={dp}) raised {type(e).__name__}: {e}")
    if not fin:
        raise Violation(f"non-finite {v!r} formatted as {text!r}")
    check_number_text(text, v, dp)
    return v


def check_number_text(text, v, dp):
    try:
        num, k = gcode_lex._scan_number(text, 0)
    except gcode_lex.LexError as e:
        raise Violation(f"{v!r} dp={dp} -> {text!r}: not a plain decimal ({e})")
    if k != len(text):
        raise Violation(f"{v!r} dp={dp} -> {text!r}: not a plain decimal")
    if "." in text and len(text.split(".")[1]) > dp:
        raise Violation(f"{v!r} dp={dp} -> {text!r}: more than dp decimals")
    if not word_faithful(text, v, dp):
        err = abs(Fraction(text) - Fraction(float(v)))
        raise Violation(f"{v!r} dp={dp} -> {text!r}: off by {float(err):.3e} "
                        f"(> half unit {0.5 / 10 ** dp:.1e})")


# ---------------------------------------------------------------------------
# (ii) builder calls
# ---------------------------------------------------------------------------

COMMENT_STYLES = [";", "(", "[", "<", '"', "'", "/*", "#", "//", "%", "{"]
EOLS = ["lf", "crlf", "rawlf", "rawcrlf", "cr"]
LABEL_SETS = [None, {"X": "A", "Y": "B", "Z": "C"}, {"X": "U", "Y": "V", "Z": "W"},
              {"X": "Y", "Y": "X", "Z": "Z"}, {"X": " xa ", "Y": "yb", "Z": "zc"},
              {"Z": "Q"}]
MOTION = ["move", "rapid", "move_absolute", "rapid_absolute", "set_axis",
          "auto_home", "probe"]
HALT_TEMP = ["wait-for-bed", "wait-for-hotend", "wait-for-chamber"]


def call_strategy():
    from hypothesis import strategies as st
    # through the builder typeguard admits python floats/ints and numpy
    # float64 (a float subclass) only; the other numpy dtypes are exercised
    # on number() directly
    anyv = value_strategy(np_types=["float64"])
    pos = value_strategy(nonneg=True, allow_np=False)
    anyf = value_strategy(allow_np=False)
    # a comment must never add a line or words to the block (C09 studies the
    # text in depth; here it is part of "one well-formed block per call")
    text = st.sampled_from([None, "hello", "feed move", "ümlaut ✓", "a b  c",
                            "retract\nM112", "pocket (rough) M30", "x\r\nG0 Z-5",
                            # line breaks of every kind: a lone CR, LF CR, CR CR LF
                            "tool\rM3 S9000", "a\n\rG28", "b\r\r\nM30",
                            # closing delimiters nested inside themselves
                            "pocket **// G1 X999 */", "a )) b (", "x ]] y [", "q }} r {"])
    axes = st.fixed_dictionaries({}, optional={"x": anyv, "y": anyv, "z": anyv})
    # free-form words are plain keyword arguments (not type-checked): every
    # numpy scalar type can arrive there
    anyx = value_strategy()
    extra = st.fixed_dictionaries({}, optional={
        "F": pos, "S": pos, "E": anyx, "p": anyx, "j": anyv})

    def motion(op):
        return st.tuples(axes, extra, text, st.booleans(),
                         st.sampled_from(["towards", "away", "towards-no-error",
                                          "away-no-error"])).map(
            lambda t: {"op": op, "axes": t[0],
                       "extra": {k: v for k, v in t[1].items()
                                 if not (op in ("set_axis", "auto_home")
                                         and k in ("F", "S"))},
                       "comment": t[2], "as_point": t[3], "mode": t[4]})

    from vf.hist import equally as _eq
    scalar = _eq(
        pos.map(lambda v: {"op": "set_feed_rate", "v": v}),
        pos.map(lambda v: {"op": "set_tool_power", "v": v}),
        st.tuples(st.sampled_from(["cw", "ccw", "clockwise"]), pos).map(
            lambda t: {"op": "tool_on", "mode": t[0], "v": t[1]}),
        st.tuples(st.sampled_from(["constant", "dynamic"]), pos).map(
            lambda t: {"op": "power_on", "mode": t[0], "v": t[1]}),
        st.tuples(st.sampled_from(["manual", "automatic"]),
                  st.one_of(st.integers(1, 99), st.integers(1, 10 ** 9))).map(
            lambda t: {"op": "tool_change", "mode": t[0], "n": t[1]}),
        anyf.map(lambda v: {"op": "set_bed_temperature", "v": v}),
        anyf.map(lambda v: {"op": "set_hotend_temperature", "v": v}),
        anyf.map(lambda v: {"op": "set_chamber_temperature", "v": v}),
        st.tuples(st.sampled_from(HALT_TEMP), st.sampled_from(["S", "R", "s"]),
                  anyf).map(lambda t: {"op": "halt", "mode": t[0],
                                       "letter": t[1], "v": t[2]}),
        st.tuples(pos, st.sampled_from([None, "ms", "s"])).map(
            lambda t: {"op": "sleep", "v": t[0], "units": t[1]}),
        st.tuples(value_strategy(nonneg=True, allow_np=False, small=True),
                  st.integers(0, 9)).map(
            lambda t: {"op": "set_fan_speed", "v": t[0], "fan": t[1]}),
    )
    plain = st.one_of(
        st.sampled_from([
            {"op": "tool_off"}, {"op": "coolant_off"}, {"op": "power_off"},
            {"op": "coolant_on", "mode": "mist"}, {"op": "coolant_on", "mode": "flood"},
            {"op": "query", "mode": "position"}, {"op": "query", "mode": "temperature"},
            {"op": "set_plane", "mode": "zx"}, {"op": "set_length_units", "mode": "in"},
            {"op": "set_feed_mode", "mode": "1/time"},
            {"op": "set_extrusion_mode", "mode": "relative"},
            {"op": "set_distance_mode", "mode": "absolute"},
            {"op": "pause"}, {"op": "stop"}, {"op": "wait"},
            {"op": "set_time_units", "mode": "ms"}, {"op": "set_time_units", "mode": "s"},
            {"op": "set_temperature_units", "mode": "kelvin"},
            {"op": "comment", "text": "plain comment"},
            {"op": "comment", "text": "Ünï ✓ text"},
            {"op": "annotate", "key": "tool_d", "text": "3.175 mm"},
            {"op": "emergency_halt", "text": "stop now", "reset": True},
            {"op": "emergency_halt", "text": "stop", "reset": False},
        ]))
    reconf = _eq(
        st.integers(0, 12).map(lambda n: {"op": "reconfig", "dp": n}),
        # an axis renamed in the middle of a program (rename_axis or the
        # formatter's own setter), and a NEW formatter object installed with
        # set_formatter() (configured like the old one but for decimal places)
        st.tuples(st.sampled_from(["x", "y", "z"]),
                  st.sampled_from(["A", "B", "C", "U", "V", "W", "Q", " b ", "x", "y", "z"]),
                  st.sampled_from(["rename_axis", "format"])).map(
            lambda t: {"op": "relabel", "axis": t[0], "label": t[1], "via": t[2]}),
        st.tuples(st.integers(0, 12), st.sampled_from([None, None, "lf", "crlf", "cr"])).map(
            lambda t: {"op": "new_formatter", "dp": t[0], "eol": t[1]}),
        st.sampled_from([{"decimal_places": 1}, {"decimal_places": 0, "y_axis": "V"},
                         {"x_axis": "A", "z_axis": "C", "comment_symbols": "("},
                         {"decimal_places": 12, "line_endings": "\\r\\n", "comment_symbols": "#"}]).map(
            lambda c: {"op": "other_builder", "cfg": c}))
    from vf.hist import weighted, equally
    return weighted((8, equally(*[motion(op) for op in MOTION])), (5, scalar), (2, plain),
                    (2, reconf), (1, st.just({"op": "repeat"})))


def case_strategy():
    from hypothesis import strategies as st
    cfg = st.fixed_dictionaries({
        "dp": st.integers(0, 12),
        "eol": st.sampled_from(EOLS),
        "comment": st.sampled_from(COMMENT_STYLES),
        "labels": st.sampled_from(LABEL_SETS),
    })
    return st.fixed_dictionaries({
        "cfg": cfg, "calls": st.lists(call_strategy(), min_size=1, max_size=6)})


def _build(call, dp, labels):
    """-> (descriptor for apply_call, expected {label: value} or None,
           expected number of lines, [resolved values])"""
    op = call["op"]
    lab = {"X": "X", "Y": "Y", "Z": "Z"}
    for a, l in (labels or {}).items():
        lab[a] = l.strip().upper()
    if op in MOTION:
        ax = {k: resolve(d, dp) for k, d in call["axes"].items()}
        ex = {k: resolve(d, dp) for k, d in call["extra"].items()}
        kw = dict(ex)
        args = []
        if op == "probe":
            args.append(call["mode"])
        import numpy as np
        plain = all(isinstance(v, (float, int)) for v in ax.values())
        if call["as_point"] and plain:   # typeguard checks Point items as float
            import gscrib
            args.append(gscrib.geometry.Point(ax.get("x"), ax.get("y"), ax.get("z")))
        else:
            kw.update(ax)
        if call["comment"] is not None:
            kw["comment"] = call["comment"]
        exp = {lab[k.upper()]: v for k, v in ax.items()}
        for k, v in ex.items():
            exp[k.upper()] = v
        return {"op": op, "args": args, "kw": kw}, exp, 1, list(ax.values()) + list(ex.values())
    if op in ("set_feed_rate", "set_tool_power", "set_bed_temperature",
              "set_hotend_temperature", "set_chamber_temperature", "sleep"):
        v = resolve(call["v"], dp)
        letter = {"set_feed_rate": "F", "set_tool_power": "S", "sleep": "P"}.get(op, "S")
        return {"op": op, "args": [v]}, {letter: v}, 1, [v]
    if op in ("tool_on", "power_on"):
        v = resolve(call["v"], dp)
        return {"op": op, "args": [call["mode"], v]}, {"S": v}, 1, [v]
    if op == "tool_change":
        return {"op": op, "args": [call["mode"], call["n"]]}, {"T": call["n"]}, 1, [call["n"]]
    if op == "halt":
        v = resolve(call["v"], dp)
        return ({"op": "halt", "args": [call["mode"]], "kw": {call["letter"]: v}},
                {call["letter"].upper(): v}, 1, [v])
    if op == "set_fan_speed":
        v = resolve(call["v"], dp)
        return {"op": op, "args": [v, call["fan"]]}, {"S": v, "P": call["fan"]}, 1, [v]
    if op in ("set_time_units", "set_temperature_units"):
        return {"op": op, "args": [call["mode"]]}, {}, 0, []
    if op in ("coolant_on", "query", "set_plane", "set_length_units",
              "set_feed_mode", "set_extrusion_mode", "set_distance_mode"):
        return {"op": op, "args": [call["mode"]]}, {}, 1, []
    if op in ("comment",):
        return {"op": op, "args": [call["text"]]}, {}, 1, []
    if op == "annotate":
        return {"op": op, "args": [call["key"], call["text"]]}, {}, 1, []
    if op == "emergency_halt":
        return {"op": op, "args": [call["text"], call["reset"]]}, None, 4, []
    return {"op": op}, {}, 1, []


def check_builder_case(case, ctx=None):
    from gscrib.excepts import GscribError
    cfg = case["cfg"]
    dp = cfg["dp"]
    known_brace = cfg["comment"] == "{"
    s = Session(dp=dp, eol=cfg["eol"], comment=cfg["comment"],
                labels=cfg["labels"], strict=True)
    classes = set()
    if cfg["labels"]:
        classes.add("relabelled")
    classes.add("style:" + cfg["comment"])
    classes.add("eol:" + cfg["eol"])
    last_call = None
    labels = dict(cfg["labels"] or {})
    for call in case["calls"]:
        if call["op"] == "relabel":
            ax = call["axis"].upper()
            cur = {"X": "X", "Y": "Y", "Z": "Z"}
            cur.update({a: l.strip().upper() for a, l in labels.items()})
            used = {l for a, l in cur.items() if a != ax}
            lab = next(l for l in [call["label"], "A", "B", "C", "U", "V", "W", "Q"]
                       if l.strip().upper() not in used)
            if call["via"] == "rename_axis":
                s.g.rename_axis(call["axis"], lab)
            else:
                s.g.format.set_axis_label(call["axis"], lab)
            labels[ax] = lab
            classes.add("axis_renamed_mid_program")
            continue
        if call["op"] == "new_formatter":
            from gscrib.formatters import DefaultFormatter
            from vf.common import eol_of
            f = DefaultFormatter()
            dp = call["dp"]
            f.set_decimal_places(dp)
            f.set_comment_symbols(cfg["comment"])
            if call.get("eol"):
                # the new formatter ends lines differently: every later line must
                # end the new way, exactly once
                cfg = dict(cfg, eol=call["eol"])
                s.eol = eol_of(call["eol"])[1]
                classes.add("new_formatter_with_another_line_ending")
            f.set_line_endings(eol_of(cfg["eol"])[0])
            for a, l in labels.items():
                f.set_axis_label(a.lower(), l)
            s.g.set_formatter(f)
            s.dp = dp
            if s.g.format is not f:
                raise Violation("set_formatter(): builder.format is not the new formatter")
            classes.add("new_formatter_installed_mid_program")
            continue
        if call["op"] == "reconfig":
            # the configuration may change in the middle of a program
            dp = call["dp"]
            s.g.format.set_decimal_places(dp)
            s.dp = dp
            classes.add("decimal_places_changed_mid_program")
            continue
        if call["op"] == "other_builder":
            import gscrib
            from vf.common import recorder_class
            other = gscrib.GCodeBuilder(**call["cfg"])
            other.add_writer(recorder_class()())
            other.move(x=0.123456789, y=2, comment="other")
            classes.add("other_builder_created_mid_program")
            continue
        if call["op"] == "repeat":
            if last_call is None:
                continue
            call = last_call
            classes.add("same_values_emitted_again")
        last_call = call
        if call["op"] == "sleep" and call.get("units"):
            s.g.set_time_units(call["units"])     # dwell in milliseconds / seconds
            classes.add("sleep_units:" + call["units"])
        desc, exp, nlines, values = _build(call, dp, labels)
        for d, v in zip(_descs(call), values):
            classes.update(value_classes(d, v, dp))
        nonfin = any(not math.isfinite(float(v)) for v in values)
        before = len(s.rec.data)
        try:
            apply_call(s.g, desc)
            raised = None
        except Exception as e:  # judged below
            raised = e
        emitted = len(s.rec.data) - before
        from gscrib.excepts import ToolStateError, CoolantStateError
        if nonfin and isinstance(raised, (ToolStateError, CoolantStateError)):
            if emitted:
                raise Violation(f"{call['op']} rejected by an interlock "
                                f"but wrote {bytes(s.rec.data[before:])!r}")
            classes.add("interlock_rejected")
            continue
        if nonfin:
            if raised is None:
                raise Violation(f"{call['op']} accepted a non-finite value: "
                                f"{desc!r} -> {bytes(s.rec.data[before:])!r}")
            if not isinstance(raised, ValueError):
                raise Violation(f"{call['op']} with a non-finite value raised "
                                f"{type(raised).__name__} instead of ValueError: {raised}")
            if emitted:
                raise Violation(f"{call['op']} rejected a non-finite value but "
                                f"wrote {bytes(s.rec.data[before:])!r}")
            classes.add("rejected_nonfinite")
            # state may be inconsistent after a rejected call (C05's business):
            # start over with a fresh builder for the remaining calls
            s = Session(dp=dp, eol=cfg["eol"], comment=cfg["comment"],
                        labels=labels or None, strict=True)
            last_call = None
            continue
        if raised is not None:
            from gscrib.excepts import ToolStateError, CoolantStateError
            if isinstance(raised, (ToolStateError, CoolantStateError)):
                if emitted:
                    raise Violation(f"{call['op']} rejected by an interlock "
                                    f"but wrote {bytes(s.rec.data[before:])!r}")
                classes.add("interlock_rejected")
                continue
            raise Violation(f"{call['op']} with finite in-domain values raised "
                            f"{type(raised).__name__}: {raised}; call={desc!r} cfg={cfg!r}")
        blocks = s.poll()          # strict lexing; raises Violation if malformed
        if len(blocks) != nlines:
            raise Violation(f"{call['op']} emitted {len(blocks)} lines, expected "
                            f"{nlines}: {bytes(s.rec.data[before:])!r}")
        if exp is None or nlines == 0:
            continue
        words, comments, raw = blocks[0]
        # every numeric word that carries a requested value
        seen = {}
        for w in words:
            if w.letter in ("G", "M"):
                continue
            if w.letter in seen:
                raise Violation(f"letter {w.letter} twice in {raw!r}")
            seen[w.letter] = w
        for letter, v in exp.items():
            if letter not in seen:
                raise Violation(f"{call['op']}: no {letter} word for requested "
                                f"{v!r} in {raw!r}")
            if not word_faithful(seen[letter].text, v, dp):
                raise Violation(f"{call['op']}: {letter}{seen[letter].text} for "
                                f"requested {v!r} at dp={dp} in {raw!r}")
            if "." in seen[letter].text and len(seen[letter].text.split(".")[1]) > dp:
                raise Violation(f"more than {dp} decimals in {raw!r}")
        extra_letters = set(seen) - set(exp)
        if extra_letters:
            raise Violation(f"{call['op']}: unrequested words {sorted(extra_letters)} "
                            f"in {raw!r} (requested {exp!r})")
    return classes


def _descs(call):
    op = call["op"]
    if op in MOTION:
        return list(call["axes"].values()) + list(call["extra"].values())
    if "v" in call:
        return [call["v"]]
    if op == "tool_change":
        return [{"t": "int", "v": call["n"]}]
    return []


def replay(case, sub=None):
    if sub == "number" or "desc" in case:
        check_number(case["desc"], case["dp"])
    else:
        check_builder_case(case)


def run_shard(ctx):
    from hypothesis import strategies as st
    n_num = 2500 if ctx.tier == "quick" else 120000
    n_bld = 500 if ctx.tier == "quick" else 20000

    def body_num(case):
        v = check_number(case["desc"], case["dp"])
        cl = value_classes(case["desc"], v, case["dp"])
        ctx.case(case, nontrivial=bool(NONTRIVIAL & set(cl)),
                 classes=["num:" + c for c in cl] + ["number()"])

    run_hypothesis(ctx, st.fixed_dictionaries(
        {"desc": value_strategy(), "dp": st.integers(0, 12)}), body_num, n_num,
        sub="number")

    def body_bld(case):
        cl = check_builder_case(case)
        nt = bool(NONTRIVIAL & cl)
        ctx.case(case, nontrivial=nt, classes=sorted(cl) + ["builder"],
                 steps=len(case["calls"]))

    run_hypothesis(ctx, case_strategy(), body_bld, n_bld, sub="builder")
    if ctx.tier == "thorough" and ctx.shard < 4:
        _atheris(ctx)


def _atheris(ctx):
    """Unbiased double bit patterns through number(); same oracle."""
    try:
        import atheris
    except Exception:
        ctx.notes.append("atheris not importable; fuzz tier skipped")
        return
    import json
    import os
    import shutil
    import tempfile
    from gscrib.formatters import DefaultFormatter
    corpus = tempfile.mkdtemp(prefix="c08fuzz")
    r, w = os.pipe()
    pid = os.fork()
    if pid == 0:
        os.close(r)
        out = os.fdopen(w, "w")
        f = DefaultFormatter()
        counter = {"n": 0, "nt": set()}
        runs = 200000

        def tgt(data):
            counter["n"] += 1
            if len(data) >= 9:
                v = struct.unpack("<d", data[:8])[0]
                dp = data[8] % 13
                if abs(v) <= 1e15 or not math.isfinite(v):
                    desc = {"t": "f", "v": v}
                    try:
                        check_number(desc, dp)
                    except Violation as e:
                        json.dump({"violation": {"case": {"desc": {"t": "f", "v": repr(v)}, "dp": dp},
                                                 "msg": str(e)}}, out)
                        out.flush()
                        os._exit(0)
                    cl = value_classes(desc, v, dp)
                    if NONTRIVIAL & set(cl):
                        counter["nt"].add((v if v == v else "nan", dp))
            if counter["n"] >= runs:
                json.dump({"n": counter["n"], "nt": len(counter["nt"])}, out)
                out.flush()
                os._exit(0)
        devnull = os.open(os.devnull, os.O_WRONLY)
        os.dup2(devnull, 2)
        atheris.Setup(["c08fuzz", "-seed=%d" % (ctx.seed & 0x7FFFFFFF or 1),
                       "-runs=%d" % (runs + 10), "-max_len=9", corpus], tgt)
        atheris.Fuzz()
        os._exit(0)
    os.close(w)
    with os.fdopen(r) as fh:
        txt = fh.read()
    os.waitpid(pid, 0)
    shutil.rmtree(corpus, ignore_errors=True)
    if not txt:
        ctx.notes.append("atheris child produced no report")
        return
    rep = json.loads(txt)
    if "violation" in rep:
        c = rep["violation"]["case"]
        c["desc"]["v"] = float(c["desc"]["v"])
        ctx.violation(c, rep["violation"]["msg"], "number")
        return
    ctx.count("atheris_runs", rep["n"])
    ctx.count("atheris_nontrivial_values", rep["nt"])
    ctx.evaluations += rep["n"]
