"""C11 — a toolpath is the same in relative and absolute distance mode.

A logical toolpath (start position + ops with absolute waypoints on a dyadic
grid) is executed twice: once with the builder in absolute mode, once in
relative mode with the harness turning every waypoint into an offset from the
model position (centres are relative to the current position in both).  Mode
contexts inside the path force the way waypoints are expressed for both
executions.  The two outputs are interpreted; machine positions after every
motion line must coincide.
"""

import math

from vf.runner import Violation, HarnessError, run_hypothesis
from vf.common import Session
from vf.machine import norm_code

ID = "C11"
LEVEL = "exploration"
SHARDS = {"quick": 8, "thorough": 16}
RULE = ("cases = (dyadic start position, decimal places 6|9, direction, list "
        "of <=5 ops: move/rapid/move_absolute/rapid_absolute to partial "
        "absolute waypoints, absolute_mode()/relative_mode() contexts, arc "
        "(quarter-turn multiples incl. full turn), arc_radius, circle, spline, "
        "helix, thread, spiral, polyline, a user-supplied parametric curve that "
        "does not start at the current position, a set_axis (G92) re-zeroing "
        "in the middle of the toolpath, shapes ending at absolute Z exactly 0, "
        "optionally a transform (mirror, scale by 2 or 1/2, dyadic translation) "
        "active throughout; "
        "all coordinates multiples of 1/8 "
        "with |v|<=1024 so that o+(t-o) is exact; resolutions k*(1+2^-9), k in {1/2,1,2,"
        "4}); non-trivial = path with >=1 tracer shape and >=2 ops; distinct "
        "by SHA-1")
ASSUMPTIONS = [
    "waypoints are dyadic so that both executions compute bit-identical "
    "sample sets (a 1-ulp difference could otherwise change a sample count)",
    "tolerance per vertex: sqrt(3)*(relative steps so far + 2)*U(dp) + 1e-9",
    "resolutions are dyadic: with length/resolution an exact integer the "
    "library's segment filter sits on a tie that floating-point noise decides",
]
TECHNIQUE = ("differential / metamorphic property-based testing (Hypothesis): "
             "same logical toolpath in both distance modes, outputs compared "
             "through an independent interpreter")
LEVEL_TEXT = ("Generated toolpaths executed in both modes and compared vertex "
              "by vertex after independent interpretation; exploration.")


def dy(lo, hi):
    from hypothesis import strategies as st
    return st.integers(int(lo * 8), int(hi * 8)).map(lambda k: k / 8.0)


def op_strategy(depth=2):
    from hypothesis import strategies as st
    w = dy(-40, 40)
    off = dy(-12, 12)
    nzo = off.filter(lambda v: abs(v) >= 1)
    pt = st.fixed_dictionaries({}, optional={"x": w, "y": w, "z": dy(-10, 10)})
    # dyadic, but not "nice": with length/resolution an exact integer (straight
    # splines have rational lengths) the sample count sits on a tie that
    # floating-point noise decides, which is not a mode difference
    res = st.sampled_from([0.5009765625, 1.001953125, 2.00390625, 4.0078125])
    # "to0": the shape ends at absolute Z exactly 0 (offset -z in relative mode)
    dz = st.one_of(st.none(), dy(-6, 6), dy(-6, 6), st.just("to0"))
    prim = st.one_of(
        # a re-zeroing (G92) in the middle of the toolpath, the same in both runs
        st.fixed_dictionaries({"op": st.just("set_axis"), "to": pt}),
        st.fixed_dictionaries({"op": st.sampled_from(["move", "rapid"]), "to": pt}),
        st.fixed_dictionaries({"op": st.sampled_from(["move_absolute", "rapid_absolute"]), "to": pt}),
        st.fixed_dictionaries({"op": st.just("arc"), "cx": nzo, "cy": off, "k": st.integers(1, 4),
                               "dz": dz, "res": res}),
        st.fixed_dictionaries({"op": st.just("arc_radius"), "dx": nzo, "dy": off,
                               "rf": st.sampled_from([1.0625, 1.25, 1.5, 2.0, 4.0]),
                               "neg": st.booleans(), "dz": dz, "res": res}),
        st.fixed_dictionaries({"op": st.just("circle"), "cx": nzo, "cy": off, "res": res}),
        st.fixed_dictionaries({"op": st.just("spline"),
                               "pts": st.lists(st.tuples(nzo, off, dy(-4, 4)), min_size=2, max_size=4),
                               "z": st.booleans(), "res": res}),
        st.fixed_dictionaries({"op": st.just("polyline"),
                               "pts": st.lists(st.tuples(off, off, dy(-4, 4)), min_size=1, max_size=4),
                               "z": st.booleans()}),
        st.fixed_dictionaries({"op": st.just("helix"), "cx": nzo, "cy": off, "tx": nzo, "ty": off,
                               "turns": st.integers(1, 3), "dz": dz, "res": res}),
        st.fixed_dictionaries({"op": st.just("thread"), "dx": nzo, "dy": off, "dz": dy(-8, 8),
                               # not "nice" for the same reason as the resolutions: with |dz|/pitch an exact
        # integer the turn count int(|dz|/pitch) sits on a boundary that the ~1e-15
        # noise of a position left by a traced path decides
        "pitch": st.sampled_from([0.5009765625, 1.001953125, 2.00390625, 4.0078125]), "res": res}),
        st.fixed_dictionaries({"op": st.just("spiral"), "dx": nzo, "dy": off,
                               "turns": st.integers(1, 3), "dz": dz, "res": res}),
        # user-supplied parametric curve in absolute coordinates that does NOT
        # start at the current position (a straight run from A to B with a bulge)
        st.fixed_dictionaries({"op": st.just("parametric"), "ax": off, "ay": off, "bx": nzo,
                               "by": off, "bulge": dy(0, 4), "dz": dy(-4, 4), "res": res}),
    )
    if depth <= 0:
        return prim
    bypass = st.fixed_dictionaries({"op": st.sampled_from(["move_absolute", "rapid_absolute"]),
                                    "to": pt})
    ctx = st.fixed_dictionaries({"op": st.just("ctx"),
                                 "kind": st.sampled_from(["absolute_mode", "relative_mode"]),
                                 # the body starts by switching the mode itself: the
                                 # context still has to put back the mode found on entry
                                 "flip": st.booleans(),
                                 "body": st.lists(st.one_of(op_strategy(depth - 1), bypass),
                                                  max_size=3)})
    return st.one_of(prim, prim, prim, prim, ctx)


class Exec:
    """One execution of the logical toolpath."""

    def __init__(self, case, base_mode):
        self.s = Session(dp=case["dp"])
        self.g = self.s.g
        self.pos = list(case["start"])          # model position (dyadic, exact)
        self.g.set_axis(x=self.pos[0], y=self.pos[1], z=self.pos[2])
        xf = case.get("xform")
        self.xform = bool(xf)
        self.stop_at = None
        if xf:
            # a transform made of exactly representable operations (so that both
            # executions still compute bit-identical samples) is active throughout
            if xf.get("mirror"):
                self.g.transform.mirror("yz")
            if xf.get("scale"):
                self.g.transform.scale(float(xf["scale"]))
            self.g.transform.translate(*[float(v) for v in xf["translate"]])
            # bring the machine to the image of the start position (absolute
            # move on all axes), so that both executions start in step
            self.g.move(x=self.pos[0], y=self.pos[1], z=self.pos[2])
        self.g.set_direction(case["dir"])
        if base_mode == "relative":
            self.g.set_distance_mode("relative")
        self.rel = base_mode == "relative"
        self.verts = []
        self.rel_steps = 0
        self.steps_at = []

    def target(self, W, n=3):
        """Absolute waypoint W (3 floats) -> target tuple in the current mode."""
        if self.rel:
            return tuple(W[i] - self.pos[i] for i in range(n))
        return tuple(W[:n])

    def collect(self):
        self.s.poll(self._line)

    def _line(self, words, raw):
        if True:
            codes = [norm_code(w) for w in words if w.letter in ("G", "M")]
            if any(c in ("G0", "G1") for c in codes):
                mp = self.s.machine.pos
                if any(mp[a] is None for a in "XYZ"):
                    raise HarnessError("machine position unknown")
                if self.s.machine.relative:
                    self.rel_steps += 1
                self.verts.append(tuple(float(mp[a]) for a in "XYZ"))
                self.steps_at.append(self.rel_steps)

    def run(self, ops):
        g = self.g
        for op in ops:
            name = op["op"]
            if name == "ctx":
                saved = self.rel
                with getattr(g, op["kind"])():
                    self.rel = op["kind"] == "relative_mode"
                    if op.get("flip"):
                        self.rel = not self.rel
                        g.set_distance_mode("relative" if self.rel else "absolute")
                    self.collect()
                    self.run(op["body"])
                self.rel = saved
                self.collect()
                continue
            p = self.pos
            if op.get("dz") == "to0":
                op = dict(op, dz=-p[2])
            if name == "set_axis" and self.xform:
                # G92 under a transform puts machine and builder out of step by
                # design (the two modes then differ legitimately): not issued
                continue
            if name == "set_axis":
                g.set_axis(**op["to"])
                for ax, v in op["to"].items():
                    p["xyz".index(ax)] = v
            elif name in ("move", "rapid"):
                kw = {}
                for ax, v in op["to"].items():
                    k = "xyz".index(ax)
                    kw[ax] = v - p[k] if self.rel else v
                    p[k] = v
                getattr(g, name)(**kw)
            elif name in ("move_absolute", "rapid_absolute"):
                getattr(g, name)(**op["to"])
                for ax, v in op["to"].items():
                    p["xyz".index(ax)] = v
                if self.xform and self.stop_at is None and op["to"]:
                    # a bypass move goes to the RAW target: under a transform the
                    # machine and the builder are out of step afterwards by
                    # design, so the two runs are compared up to here only
                    self.collect()
                    self.stop_at = len(self.verts)
            else:
                g.set_resolution(op.get("res", 1.0))
                if name == "arc":
                    c = (p[0] + op["cx"], p[1] + op["cy"])
                    vx, vy = p[0] - c[0], p[1] - c[1]
                    for _ in range(op["k"] % 4):
                        vx, vy = -vy, vx
                    W = [c[0] + vx, c[1] + vy, p[2] + (op["dz"] or 0.0)]
                    n = 3 if op["dz"] is not None else 2
                    g.trace.arc(self.target(W, n), (op["cx"], op["cy"]))
                elif name == "arc_radius":
                    W = [p[0] + op["dx"], p[1] + op["dy"], p[2] + (op["dz"] or 0.0)]
                    n = 3 if op["dz"] is not None else 2
                    R = math.hypot(op["dx"], op["dy"]) / 2 * op["rf"]
                    g.trace.arc_radius(self.target(W, n), -R if op["neg"] else R)
                elif name == "circle":
                    W = list(p)
                    g.trace.circle((op["cx"], op["cy"]))
                elif name in ("spline", "polyline"):
                    n = 3 if op["z"] else 2
                    args, cur = [], list(p)
                    for (ox, oy, oz) in op["pts"]:
                        nxt = [cur[0] + ox, cur[1] + oy, cur[2] + (oz if op["z"] else 0.0)]
                        if self.rel:
                            args.append(tuple(nxt[i] - cur[i] for i in range(n)))
                        else:
                            args.append(tuple(nxt[:n]))
                        cur = nxt
                    W = cur
                    getattr(g.trace, name)(args)
                elif name == "helix":
                    c = (p[0] + op["cx"], p[1] + op["cy"])
                    W = [c[0] + op["tx"], c[1] + op["ty"], p[2] + (op["dz"] or 0.0)]
                    n = 3 if op["dz"] is not None else 2
                    g.trace.helix(self.target(W, n), (op["cx"], op["cy"]), op["turns"])
                elif name == "thread":
                    W = [p[0] + op["dx"], p[1] + op["dy"], p[2] + op["dz"]]
                    g.trace.thread(self.target(W, 3), op["pitch"])
                elif name == "parametric":
                    import numpy as np
                    A = (p[0] + op["ax"], p[1] + op["ay"], p[2])
                    B = (A[0] + op["bx"], A[1] + op["by"], p[2] + op["dz"])
                    bulge = op["bulge"]

                    def fn(thetas, A=A, B=B, bulge=bulge):
                        t = np.asarray(thetas, dtype=float)
                        x = A[0] + (B[0] - A[0]) * t
                        y = A[1] + (B[1] - A[1]) * t + bulge * 4 * t * (1 - t)
                        z = A[2] + (B[2] - A[2]) * t
                        return np.column_stack((x, y, z))
                    length = float(g.trace.estimate_length(200, fn))
                    g.trace.parametric(fn, max(length, 0.5))
                    W = list(B)
                elif name == "spiral":
                    W = [p[0] + op["dx"], p[1] + op["dy"], p[2] + (op["dz"] or 0.0)]
                    n = 3 if op["dz"] is not None else 2
                    g.trace.spiral(self.target(W, n), op["turns"])
                else:
                    raise HarnessError("unknown op " + name)
                self.pos = list(W)
            self.collect()


def run_case(case, cl=None):
    cl = set() if cl is None else cl
    runs = {}
    for mode in ("absolute", "relative"):
        e = Exec(case, mode)
        try:
            e.run(case["ops"])
            exc = None
        except HarnessError:
            raise
        except Exception as ex:
            exc = ex
        runs[mode] = (e, exc)
    (a, ea), (b, eb) = runs["absolute"], runs["relative"]
    if (ea is None) != (eb is None):
        raise Violation(f"the toolpath raised {ea!r} in absolute mode but {eb!r} in "
                        f"relative mode; ops={case['ops']!r}")
    if ea is not None:
        cl.add("rejected_in_both:" + type(ea).__name__)
    if a.stop_at is not None or b.stop_at is not None:
        if a.stop_at != b.stop_at and ea is None and eb is None:
            raise Violation(f"{a.stop_at} machine positions up to the first bypass move in "
                            f"absolute mode, {b.stop_at} in relative mode; ops={case['ops']!r}")
        k = min(x for x in (a.stop_at, b.stop_at) if x is not None)
        del a.verts[k:], b.verts[k:]
        cl.add("compared_up_to_first_bypass_move_under_transform")
    n = min(len(a.verts), len(b.verts))
    U = float(a.s.U)
    for i in range(n):
        tol = math.sqrt(3) * (max(a.steps_at[i], b.steps_at[i]) + 2) * U + 1e-9
        if math.dist(a.verts[i], b.verts[i]) > tol:
            raise Violation(f"machine position #{i} differs: absolute execution "
                            f"{a.verts[i]}, relative execution {b.verts[i]} "
                            f"(tolerance {tol:.2e}); ops={case['ops']!r}")
    if len(a.verts) != len(b.verts):
        raise Violation(f"{len(a.verts)} machine positions in absolute mode, "
                        f"{len(b.verts)} in relative mode; ops={case['ops']!r}")
    pa, pb = a.g.position, b.g.position
    if a.stop_at is None and math.dist(tuple(pa), tuple(pb)) > 1e-9 * (1 + max(abs(c) for c in pa)):
        raise Violation(f"final builder positions differ: {tuple(pa)} vs {tuple(pb)}")
    shapes = [o for o in flatten(case["ops"]) if o["op"] not in
              ("move", "rapid", "move_absolute", "rapid_absolute", "ctx", "set_axis")]
    for o in shapes:
        cl.add("shape:" + o["op"])
    if any(o["op"] == "ctx" for o in flatten(case["ops"])):
        cl.add("mode_context")
    if any(o["op"] == "ctx" and o.get("flip") for o in flatten(case["ops"])):
        cl.add("mode_switched_inside_a_mode_context")
    if case.get("xform"):
        cl.add("transform_active")
    if any(o["op"] == "set_axis" for o in flatten(case["ops"])):
        cl.add("rezero_mid_toolpath")
    if any(o.get("dz") == "to0" for o in flatten(case["ops"])):
        cl.add("shape_ends_at_Z_exactly_0")
    if shapes and len(list(flatten(case["ops"]))) >= 2 and ea is None:
        cl.add("NT")
    return cl, len(a.verts)


def flatten(ops):
    for o in ops:
        yield o
        if o["op"] == "ctx":
            yield from flatten(o["body"])


def replay(case):
    run_case(case)


def strategy():
    from hypothesis import strategies as st
    return st.fixed_dictionaries({
        "start": st.lists(dy(-30, 30), min_size=3, max_size=3),
        "dp": st.sampled_from([6, 9]), "dir": st.sampled_from(["cw", "ccw"]),
        "xform": st.one_of(st.none(), st.none(), st.fixed_dictionaries({
            "translate": st.lists(dy(-16, 16), min_size=3, max_size=3),
            "scale": st.sampled_from([None, 2, 0.5]), "mirror": st.booleans()})),
        "ops": st.lists(op_strategy(), min_size=1, max_size=5)})


def run_shard(ctx):
    n = 70 if ctx.tier == "quick" else 3000

    def body(case):
        cl, nv = run_case(case, set())
        ctx.case(case, nontrivial="NT" in cl, classes=sorted(cl), steps=nv)

    run_hypothesis(ctx, strategy(), body, n)
