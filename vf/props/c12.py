"""C12 — interpolation honours the configured resolution.

Constant-speed shapes (arc, arc_radius, circle, constant-radius helix): segment
length measured *along the curve* between consecutive vertices, count, chord
error.  All shapes: halving the resolution never yields fewer segments.
Units: set_length_units after set_resolution keeps the physical length.
"""

import math

from vf.runner import Violation, run_hypothesis
from vf import hist, geom

ID = "C12"
LEVEL = "exploration"
SHARDS = {"quick": 8, "thorough": 16}
RULE = ("cases = (start position, distance mode, direction, constant-speed "
        "shape (arc/arc_radius/circle/helix with equal radii, 1..8 turns quick, "
        "..64 thorough + a thin class to 600), length/resolution log-uniform "
        "in 1..500 (thorough: thin class to 1e4), radius >= 5 resolutions (half the "
        "cases: radius >= 0.5 resolutions), optionally placed 1.5e4..4e4 resolutions "
        "away from the origin, optionally after another traced path "
        "or after the same path traced at another resolution on the same builder) for "
        "the length clauses; any of the eight shapes at res and res/2 for the "
        "monotonicity clause; (resolution, unit switch sequence) for the units "
        "clause; non-trivial = length/resolution >= 10; distinct by SHA-1")
ASSUMPTIONS = [
    "segment length is measured along the requested curve between the "
    "parameters of consecutive vertices (chords are shorter than arcs)",
    "bounds 'about one resolution': every segment <= 1.15 res, interior "
    "segments >= 0.85 res (the code's own figures are 0.9 res travelled plus "
    "at most one sample of res/10); count in [L/(1.15 res), L/(0.85 res)+2]",
    "1 inch = 25.4 mm; resolution compared with relative tolerance 1e-9",
]
TECHNIQUE = ("property-based testing (Hypothesis) with arc-length measurement "
             "on an independent closed form + metamorphic relation (res vs "
             "res/2) + unit-switch round trip")
LEVEL_TEXT = ("Generated requests over four orders of magnitude of "
              "length/resolution judged by arc-length bounds, count bounds and "
              "a metamorphic halving relation; exploration.")


def const_shape(max_turns):
    from hypothesis import strategies as st
    ang = st.floats(min_value=-math.pi, max_value=math.pi, allow_nan=False)
    rad = st.one_of(st.floats(min_value=0.5, max_value=40.0), st.floats(min_value=0.5, max_value=500.0))
    dz = st.one_of(st.just(0.0), st.floats(min_value=-20, max_value=20),
                   st.floats(min_value=-400, max_value=400))
    off = st.floats(min_value=-30, max_value=30, allow_nan=False)
    nz = off.filter(lambda v: abs(v) > 0.5)
    sweep = st.floats(min_value=0.05, max_value=2 * math.pi - 0.05)
    # steep constant-radius helices: the rise is 10..400 times the planar travel
    # (a length estimate that forgets Z undersamples exactly these)
    steep = st.tuples(st.floats(min_value=0.5, max_value=2.0), ang,
                      st.floats(min_value=0.05, max_value=1.0),
                      st.floats(min_value=20, max_value=200), st.booleans()).map(
        lambda t: {"shape": "helix", "r": t[0], "a0": t[1], "r1": t[0], "sweep": t[2],
                   "turns": 1, "dz": -t[3] if t[4] else t[3], "zgiven": True, "full": False})
    steep_arc = st.tuples(st.floats(min_value=0.5, max_value=3.0), ang,
                          st.floats(min_value=0.05, max_value=0.8),
                          st.floats(min_value=15, max_value=150), st.booleans()).map(
        lambda t: {"shape": "arc", "r": t[0], "a0": t[1], "sweep": t[2],
                   "dz": -t[3] if t[4] else t[3], "zgiven": True, "full": False})
    return hist.equally(
        steep, steep_arc,
        st.fixed_dictionaries({"shape": st.just("arc"), "r": rad, "a0": ang, "sweep": sweep,
                               "dz": dz, "zgiven": st.booleans(), "full": st.sampled_from([False, False, True])}),
        st.fixed_dictionaries({"shape": st.just("arc_radius"), "dx": nz, "dy": off,
                               "rf": st.one_of(st.floats(min_value=1.05, max_value=4.0),
                                               # radius barely above half the chord
                                               st.floats(min_value=1.00002, max_value=1.004)),
                               "neg": st.booleans(), "dz": dz, "zgiven": st.booleans()}),
        st.fixed_dictionaries({"shape": st.just("circle"), "cx": nz, "cy": off}),
        rad.flatmap(lambda r: st.fixed_dictionaries({
            "shape": st.just("helix"), "r": st.just(r), "a0": ang, "r1": st.just(r),
            "sweep": sweep, "turns": st.integers(1, max_turns), "dz": dz,
            "zgiven": st.booleans(), "full": st.sampled_from([False, True])})),
    )


def log_ratio(hi):
    from hypothesis import strategies as st
    return st.floats(min_value=0.0, max_value=math.log10(hi)).map(lambda e: 10 ** e)


def info_curve(info, tgt):
    k = info["kind"]
    if k == "arc_radius":
        c, a0, S = geom.arc_radius_geometry(info["start"], tgt, info["R"], info["major"], info["cw"])
        return geom.Curve(c, info["R"], info["R"], a0, S, info["z0"], info["dz"])
    if k == "helix":
        return geom.Curve(info["c"], info["r0"], info["r1"], info["a0"], info["sweep"],
                          info["z0"], info["dz"])
    return geom.Curve(info["c"], info["r"], info["r"], info["a0"], info["sweep"],
                      info["z0"], info["dz"])


def radius_of(info):
    return info.get("r", info.get("R", info.get("r0")))


def check_lengths(case, cl):
    d = case["desc"]
    # plan the resolution from the intended geometry: radius >= 5 resolutions
    probe = geom.run_shape(case["start"], case["mode"], case["dir"], 9, d, ratio=2.0,
                           pre=case.get("pre"))
    L = probe["L"]
    info = probe["info"]
    if info["kind"] == "arc_radius":
        cv = info_curve(info, info["target"])
        L = math.hypot(info["R"] * cv.S, info["dz"])
    r = radius_of(info)
    # chords of the library's fine samples (resolution/10 apart) must stay close
    # to arcs for its own bookkeeping to mean "path travelled": radius >= res/2
    res = min(L / case["ratio"], r / (5.0 if case.get("wide_radius", True) else 0.5))
    start = case["start"]
    if case.get("far_mult"):
        # the same request placed far from the origin *relative to the
        # resolution* (coordinates of 1.5e4..4e4 resolutions, capped where the
        # tracer's own cost explodes): relative tolerances on coordinates must
        # not merge samples that are a tenth of a resolution apart
        m = min(case["far_mult"] * res, 9000.0)
        sx, sy = case.get("far_sign", [1, 1])
        start = [sx * m, sy * m, (case["start"] or [0, 0, 0])[2]]
        cl.add("far_from_origin_in_resolutions")
    # optionally another path was traced on the same builder just before
    run = geom.run_shape(start, case["mode"], case["dir"], 9, d, res=res,
                         pre=case.get("pre"), rehearse=case.get("rehearse"),
                         mirror=bool(case.get("mirror")) and not case.get("rehearse"))
    if case.get("mirror") and not case.get("rehearse") and start is not None:
        cl.add("mirror_transform_active")
    if case.get("pre"):
        cl.add("after_another_traced_path")
    if case.get("rehearse"):
        cl.add("same_path_traced_before_at_another_resolution")
    what = (f"{run['call'][0]}{tuple(run['call'][1])} from {run['start']} "
            f"({case['mode']}, {case['dir']}, resolution {res:.6g}, length {L:.6g})")
    if run["exc"] is not None:
        raise Violation(f"{what} raised {type(run['exc']).__name__}: {run['exc']}")
    verts = run["verts"]
    curve = info_curve(run["info"], run["info"]["target"])
    n = len(verts)
    steps = n if case["mode"] == "relative" else 1
    tol = math.sqrt(3) * (steps + 1) * float(run["s"].U) + 1e-11 * (steps + 1) * \
        max(1.0, max(abs(c) for v in verts for c in v))
    params, total = geom.on_curve(curve, verts, res, tol, what)
    speed = math.hypot(r * curve.S, curve.dz)
    fs = [0.0] + params
    seg = [(fs[i + 1] - fs[i]) * speed for i in range(n)]
    slack = 2 * tol
    for i, sl in enumerate(seg):
        if sl > 1.15 * res + slack:
            raise Violation(f"{what}: segment #{i} is {sl:.6g} long along the curve "
                            f"(> 1.15 x resolution {res:.6g}); {n} segments")
        if 0 < i < n - 1 and sl < 0.85 * res - slack:
            raise Violation(f"{what}: interior segment #{i} is {sl:.6g} long along the "
                            f"curve (< 0.85 x resolution {res:.6g}); {n} segments")
    Lc = speed
    if not (Lc / (1.15 * res) - 1e-6 <= n <= Lc / (0.85 * res) + 2):
        raise Violation(f"{what}: {n} segments for length/resolution = {Lc / res:.4g}")
    if curve.dz == 0:
        pts = [run["start"]] + verts
        smax = max(math.dist(a, b) for a, b in zip(pts, pts[1:]))
        sag = r - math.sqrt(max(r * r - (smax / 2) ** 2, 0.0))
        for a, b in zip(pts, pts[1:]):
            m = ((a[0] + b[0]) / 2, (a[1] + b[1]) / 2)
            dev = r - math.hypot(m[0] - curve.c[0], m[1] - curve.c[1])
            if dev > sag + slack or dev < -slack:
                raise Violation(f"{what}: chord midpoint deviates {dev:.3e} from the "
                                f"circle (bound {sag:.3e} for the longest chord {smax:.4g})")
    cl.add("len:" + d["shape"])
    if Lc / res >= 10:
        cl.add("NT")
    if Lc / res >= 500:
        cl.add("ratio>=500")
    if d["shape"] == "helix" and d["turns"] > 8:
        cl.add("many_turns")
    return n


def check_halving(case, cl):
    d = case["desc"]
    a = geom.run_shape(case["start"], case["mode"], case["dir"], 9, d, ratio=case["ratio"])
    if a["exc"] is not None:
        raise Violation(f"{a['call']} raised {a['exc']!r}")
    b = geom.run_shape(case["start"], case["mode"], case["dir"], 9, d, res=a["res"] / 2)
    if b["exc"] is not None:
        raise Violation(f"{b['call']} at half resolution raised {b['exc']!r}")
    na, nb = len(a["verts"]), len(b["verts"])
    if nb < na:
        raise Violation(f"{a['call'][0]}{tuple(a['call'][1])} from {a['start']}: {na} "
                        f"segments at resolution {a['res']:.6g} but {nb} at {a['res'] / 2:.6g}")
    cl.add("halving:" + d["shape"])
    if case["ratio"] >= 10:
        cl.add("NT")
    return na + nb


def check_units(case, cl):
    import gscrib
    g = gscrib.GCodeBuilder()
    res = case["res"]
    g.set_resolution(res)
    units = "mm"
    phys_mm = res
    from vf.props.c02 import _flaky_writer
    flaky = _flaky_writer()
    g.add_writer(flaky)
    for u in case["seq"]:
        if u.startswith("res:"):
            v = float(u[4:])
            g.set_resolution(v)
            phys_mm = v * (25.4 if units == "in" else 1.0)
            continue
        if u.startswith("fail:"):
            # the switch is attempted while the output device fails on that very
            # statement: whatever the builder then believes its units to be, the
            # resolution must still describe the same physical length (units and
            # resolution change together or not at all), also after a retry
            u = u[5:]
            flaky.armed = True
            try:
                g.set_length_units(u)
            except Exception:
                pass
            flaky.armed = False
            cl.add("units_switch_with_failing_writer")
            now = g.state.length_units.value
            units = "in" if now.startswith("in") else "mm"
            exp = phys_mm / 25.4 if units == "in" else phys_mm
            got = g.state.resolution
            if abs(got - exp) > 1e-9 * exp:
                raise Violation(f"after a units switch to {u!r} whose statement could not be "
                                f"written (sequence {case['seq']!r} from {res} mm): the builder "
                                f"reports {now} and resolution {got!r}, physical {phys_mm} mm "
                                f"would be {exp!r}")
            continue
        g.set_length_units(u)
        units = "in" if u in ("in", "inches") else "mm"
        exp = phys_mm / 25.4 if units == "in" else phys_mm
        got = g.state.resolution
        if abs(got - exp) > 1e-9 * exp:
            raise Violation(f"after set_resolution/unit switches {case['seq']!r} from "
                            f"{res} mm: resolution is {got!r} {units}, expected {exp!r} "
                            f"(physical {phys_mm} mm)")
    cl.add("units")
    if len([u for u in case["seq"] if not u.startswith("res:")]) >= 2:
        cl.add("NT")
    return len(case["seq"])


def replay(case, sub=None):
    kind = case.get("kind")
    if kind == "units":
        check_units(case, set())
    elif kind == "halving":
        check_halving(case, set())
    else:
        check_lengths(case, set())


def start_strategy():
    from hypothesis import strategies as st
    c = st.one_of(st.integers(-50, 50).map(float), st.floats(min_value=-500, max_value=500))
    far = st.floats(min_value=-4000, max_value=4000)    # coordinates >> resolution
    return st.one_of(st.just([0.0, 0.0, 0.0]), st.tuples(c, c, c).map(list),
                     st.tuples(far, far, c).map(list))


def run_shard(ctx):
    from hypothesis import strategies as st
    quick = ctx.tier == "quick"
    base = {"start": start_strategy(), "mode": st.sampled_from(["absolute", "relative"]),
            "dir": st.sampled_from(["cw", "ccw"])}

    def body_len(case):
        cl = set()
        nv = check_lengths(case, cl)
        ctx.case(case, nontrivial="NT" in cl, classes=sorted(cl), steps=nv)

    run_hypothesis(ctx, st.fixed_dictionaries(dict(
        base, kind=st.just("lengths"), desc=const_shape(8 if quick else 64),
        wide_radius=st.booleans(), ratio=log_ratio(500),
        rehearse=st.sampled_from([None, None, None, 3.7, 1.37, 7.3, 0.73]),
        far_mult=st.sampled_from([None, None, None, 1.5e4, 4e4]),
        mirror=st.sampled_from([False, False, True]),
        far_sign=st.sampled_from([[1, 1], [-1, 1], [1, -1], [-1, -1]]),
        pre=st.one_of(st.none(), st.none(), hist.shape_strategy(2)))), body_len, 45 if quick else 1500, sub="lengths")

    def body_half(case):
        cl = set()
        nv = check_halving(case, cl)
        ctx.case(case, nontrivial="NT" in cl, classes=sorted(cl), steps=nv)

    run_hypothesis(ctx, st.fixed_dictionaries(dict(
        base, kind=st.just("halving"), desc=hist.shape_strategy(3),
        ratio=log_ratio(200))), body_half, 30 if quick else 1000, sub="halving")

    def body_units(case):
        cl = set()
        nv = check_units(case, cl)
        ctx.case(case, nontrivial="NT" in cl, classes=sorted(cl), steps=nv)

    seq = st.lists(hist.weighted((6, st.sampled_from(["in", "mm", "inches", "millimeters"])),
                                 (1, st.sampled_from(["fail:in", "fail:mm", "fail:inches"])),
                                 (3, st.floats(min_value=0.001, max_value=10).map(lambda v: "res:%r" % v))),
                   min_size=1, max_size=6)
    run_hypothesis(ctx, st.fixed_dictionaries({
        "kind": st.just("units"), "res": st.floats(min_value=0.001, max_value=25.0),
        "seq": seq}), body_units, 150 if quick else 5000, sub="units")

    if quick and ctx.shard == 0:
        # one fixed many-turn helix (the 500-sample length estimate of the
        # original code aliased there); cheap enough for the quick tier
        case = {"kind": "lengths", "start": [3.0, -2.0, 1.0], "mode": "absolute",
                "dir": "ccw", "ratio": 1.0,
                "desc": {"shape": "helix", "r": 1.0, "a0": 0.3, "r1": 1.0, "sweep": 1.0,
                         "turns": 499, "dz": 25.0, "zgiven": True, "full": False}}
        try:
            cl = set()
            nv = check_lengths(case, cl)
            ctx.case(case, nontrivial=True, classes=sorted(cl) + ["fixed_499_turns"], steps=nv)
        except Violation as v:
            ctx.violation(case, str(v), "lengths")
    if not quick:
        def body_big(case):
            cl = set()
            nv = check_lengths(case, cl)
            ctx.case(case, nontrivial=True, classes=sorted(cl) + ["thin_class"], steps=nv)
        run_hypothesis(ctx, st.fixed_dictionaries(dict(
            base, kind=st.just("lengths"), desc=const_shape(600),
            ratio=st.floats(min_value=500, max_value=10000))), body_big, 3, sub="big")
