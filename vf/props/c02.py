"""C02 — interlocks: no unsafe tool/coolant/halt sequence is ever emitted.

(a) output invariant over the interpreted program, (b) exception agreement in
both directions against the documented interlock rules (vf/statehist.
InterlockModel), (c) the state's active flags equal the interpreter's.
Thorough tier adds every sequence of length <= 4 over a 22-call alphabet.
"""

import itertools

from vf.runner import Violation, run_hypothesis
from vf.common import Session, apply_call
from vf import statehist as sh
from vf.statehist import C

ID = "C02"
LEVEL = "exploration"
SHARDS = {"quick": 8, "thorough": 16}
EXHAUSTIVE = {"quick": False, "thorough": False}
RULE = ("cases = list of <=30 calls over tool_on/tool_off/power_on/power_off/"
        "coolant_on/coolant_off/tool_change/halt (9 modes)/pause/stop/wait/"
        "emergency_halt interleaved with moves (with and without S=), mode "
        "changes, temperature commands; a minority of calls carries an invalid "
        "argument (negative speed, bad enum string, mode 'off', tool number 0); "
        "quick also enumerates all sequences of length<=3, thorough of "
        "length<=4, over a 22-call alphabet; non-trivial = a guarded call "
        "attempted while tool or coolant is on after a completed on/off cycle "
        "through the other tool API (spin vs. power); distinct by SHA-1")
ASSUMPTIONS = [
    "documented rejection rules: tool start while tool active -> "
    "ToolStateError; coolant start while coolant active -> CoolantStateError; "
    "tool change / any halt while tool or coolant active -> either error",
    "no bounds are configured here (C03 covers them); when an invalid "
    "argument and an interlock both apply, either exception is accepted",
]
TECHNIQUE = ("model-based property testing (Hypothesis call histories) against "
             "a reference interlock model and an independent interpreter + "
             "bounded-exhaustive enumeration of short histories")
LEVEL_TEXT = ("Generated histories plus exhaustive short histories; each call's "
              "accept/reject outcome is predicted from the documented rules and "
              "compared both ways, and the emitted program is re-interpreted to "
              "check the safety invariant. Exploration / bounded enumeration.")

ALPHABET = [
    C("tool_on", "cw", 1000), C("tool_on", "ccw", 0), C("tool_off"),
    C("power_on", "constant", 50), C("power_on", "dynamic", 100), C("power_off"),
    C("coolant_on", "mist"), C("coolant_on", "flood"), C("coolant_off"),
    C("tool_change", "manual", 1), C("tool_change", "automatic", 12),
    C("halt", "pause"), C("halt", "end-with-reset"), C("halt", "wait-for-bed", S=60),
    C("halt", "wait-for-motion"), C("pause", True), C("stop", False), C("wait"),
    C("emergency_halt", "x", False), C("move", x=1, S=10), C("set_tool_power", 5),
    C("set_hotend_temperature", 200),
]

INVALID = [
    (C("tool_on", "cw", -1), {"ValueError"}),
    (C("tool_on", "sideways", 10), {"ValueError"}),
    (C("tool_on", "off", 10), {"ValueError"}),
    (C("power_on", "off", 10), {"ValueError"}),
    (C("power_on", "constant", -0.5), {"ValueError"}),
    (C("coolant_on", "off"), {"ValueError"}),
    (C("coolant_on", "spray"), {"ValueError"}),
    (C("tool_change", "manual", 0), {"ValueError"}),
    (C("tool_change", "off", 3), {"ValueError"}),
    (C("halt", "off"), {"ValueError"}),
    (C("halt", "nap"), {"ValueError"}),
]


def _flaky_writer():
    """A second writer (a direct device link) that fails with DeviceError on
    the next write when armed: the line has already reached the first writer."""
    from gscrib.writers import BaseWriter
    from gscrib.excepts import DeviceError

    class Flaky(BaseWriter):
        def __init__(self):
            self.armed = False

        def connect(self):
            return self

        def disconnect(self, wait=True):
            pass

        def write(self, statement):
            if self.armed:
                self.armed = False
                raise DeviceError("acknowledgement timed out")

        def flush(self):
            pass
    return Flaky()


def run_calls(calls, cl=None, dp=5):
    cl = set() if cl is None else cl
    s = Session(dp=dp)
    flaky = None
    model = sh.InterlockModel()
    cycles = {"tool_on": False, "power_on": False}   # completed on/off cycle per API
    for i, call in enumerate(calls):
        if call["op"] == "writer_fails_next":
            # the NEXT statement reaches the file but the device link fails:
            # the call raises DeviceError, and the interlock bookkeeping must
            # stay in step with what was written (never on the unsafe side)
            if flaky is None:
                flaky = _flaky_writer()
                s.g.add_writer(flaky)
            flaky.armed = True
            continue
        invalid = set(call.get("_invalid", ()))
        real = {k: v for k, v in call.items() if k != "_invalid"}
        reasons = model.reasons(real) | invalid
        ev0 = len(s.machine.events)
        b0 = len(s.rec.data)
        if model.reasons(real) and real["op"] in sh.GUARDED_BY_BOTH | {"tool_on", "power_on", "coolant_on"}:
            cl.add("guarded_call_while_active")
            other = "power_on" if model.start_api == "tool_on" else "tool_on"
            if model.tool and cycles.get(other):
                cl.add("guarded_after_other_api_cycle")
        try:
            apply_call(s.g, real)
            exc = None
        except Exception as e:
            exc = e
        where = f"call #{i} {real!r}"
        if exc is None:
            if reasons:
                raise Violation(f"{where} succeeded although {sorted(reasons)} "
                                f"applies (tool_on={model.tool} coolant_on={model.coolant}); "
                                f"emitted {bytes(s.rec.data[b0:])!r}")
            if len(s.rec.data) == b0 and real["op"] not in (
                    "set_time_units", "set_temperature_units", "other_builder", "aborted_path"):
                raise Violation(f"{where} succeeded but emitted nothing")
            if real["op"] in ("tool_off", "power_off") and model.tool:
                cycles[model.start_api] = True
            model.commit(real)
        elif type(exc).__name__ == "DeviceError" and flaky is not None and not flaky.armed \
                and len(s.rec.data) != b0:
            # the write failed on the second writer after the first one had the
            # line: not a rejection.  The model follows what was written.
            cl.add("write_failed_after_the_line_was_written")
            s.poll()
            model.tool = s.machine.tool_on
            model.coolant = s.machine.coolant is not None
        else:
            if flaky is not None:
                flaky.armed = False
            name = type(exc).__name__
            if name == "TypeCheckError":
                name = "ValueError"
            if not reasons:
                raise Violation(f"{where} rejected with {type(exc).__name__}: {exc} "
                                f"although no documented condition applies "
                                f"(tool_on={model.tool} coolant_on={model.coolant})")
            if name not in reasons:
                raise Violation(f"{where} raised {type(exc).__name__}: {exc}; "
                                f"applicable: {sorted(reasons)}")
            if len(s.rec.data) != b0:
                raise Violation(f"{where} was rejected but emitted "
                                f"{bytes(s.rec.data[b0:])!r}")
            cl.add("rejected:" + name)
        s.poll()
        sh.check_output_invariant(s.machine, ev0)
        st = s.g.state
        if not (st.is_tool_active == s.machine.tool_on == model.tool):
            raise Violation(f"after {where}: is_tool_active={st.is_tool_active} "
                            f"program={s.machine.tool_on} model={model.tool}")
        if not (st.is_coolant_active == (s.machine.coolant is not None) == model.coolant):
            raise Violation(f"after {where}: is_coolant_active={st.is_coolant_active} "
                            f"program={s.machine.coolant} model={model.coolant}")
    return cl


def replay(case):
    run_calls(case["calls"])


def strategy(n):
    from hypothesis import strategies as st
    inv = st.sampled_from(INVALID).map(lambda t: dict(t[0], _invalid=sorted(t[1])))
    from vf.hist import weighted
    call = weighted((6, sh.call_strategy()), (8, sh.call_strategy(moves=False, extras=False)),
                    (2, inv), (1, st.just({"op": "writer_fails_next"})))
    v = sh.value_strategy()
    # prefixes that build the interesting state by construction: a completed
    # on/off cycle through one tool API, then the tool started through the other
    prefix = st.one_of(
        st.just([]), st.just([]),
        st.tuples(st.sampled_from(sh.SPIN), v, st.sampled_from(sh.POWER), v).map(
            lambda t: [C("tool_on", t[0], t[1]), C("tool_off"), C("power_on", t[2], t[3])]),
        st.tuples(st.sampled_from(sh.POWER), v, st.sampled_from(sh.SPIN), v).map(
            lambda t: [C("power_on", t[0], t[1]), C("power_off"), C("tool_on", t[2], t[3])]),
        st.tuples(st.sampled_from(sh.POWER), v, st.sampled_from(sh.SPIN), v).map(
            lambda t: [C("power_on", t[0], t[1]), C("tool_off"), C("coolant_on", "mist"),
                       C("tool_on", t[2], t[3])]),
    )
    return st.fixed_dictionaries({"calls": st.tuples(
        prefix, st.lists(call, min_size=1, max_size=n)).map(lambda t: t[0] + t[1])})


def _exhaustive(ctx, maxlen):
    idx = 0
    for n in range(1, maxlen + 1):
        for seq in itertools.product(range(len(ALPHABET)), repeat=n):
            idx += 1
            if idx % ctx.nshards != ctx.shard:
                continue
            calls = [ALPHABET[i] for i in seq]
            try:
                cl = run_calls(calls)
            except Violation as v:
                ctx.violation({"calls": calls}, str(v), "exhaustive")
                return
            ctx.case({"calls": calls}, nontrivial="guarded_after_other_api_cycle" in cl,
                     classes=["exhaustive"] + ["exh:" + c for c in cl], steps=n)


def run_shard(ctx):
    n = 250 if ctx.tier == "quick" else 12000

    def body(case):
        cl = run_calls(case["calls"], set())
        ctx.case(case, nontrivial="guarded_after_other_api_cycle" in cl,
                 classes=sorted(cl), steps=len(case["calls"]))

    run_hypothesis(ctx, strategy(30 if ctx.tier == "quick" else 50), body, n)
    _exhaustive(ctx, 3 if ctx.tier == "quick" else 4)
