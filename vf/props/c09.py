"""C09 — comment text can never change what the machine executes.

Metamorphic relation: the same call made with the generated text and with the
innocuous text "x" must give, after an independent lexer has removed the
comments of the configured style (a comment also ends at any raw CR or LF,
which start a new block), identical executable words line by line and the
same number of lines.
"""

from vf.runner import Violation, run_hypothesis
from vf import gcode_lex
from vf.common import recorder_class, eol_of

ID = "C09"
LEVEL = "exploration"
SHARDS = {"quick": 8, "thorough": 16}
RULE = ("cases = (comment style out of 11, line ending, entry point out of 11 "
        "text-carrying API calls, text built from arbitrary unicode plus "
        "hostile fragments: LF, CR, CRLF, the style's opening/closing "
        "delimiters (also nested inside themselves), ';', parentheses, G-code "
        "payloads, format-string fragments, non-ASCII; optionally the same text "
        "was used before on the same builder under another style; optionally with "
        "a move hook registered; full-width look-alikes of the delimiters; the "
        "same hostile fragment repeated 8..24 times; the style configured with "
        "surrounding blanks); non-trivial = the text contains a line break "
        "or the closing delimiter of the active style; distinct by SHA-1")
ASSUMPTIONS = [
    "a controller ends a block (and therefore a comment) at any raw CR or LF",
    "a bracket/quote-style comment ends at the first closing delimiter",
    "string *parameter values* (move(E='...')) are not free comment text and "
    "are outside the property",
    "a call that rejects the text with ValueError and writes nothing is "
    "accepted as 'text cannot change what executes' (counted separately)",
]
TECHNIQUE = ("metamorphic property-based testing (Hypothesis) with an "
             "independent comment-stripping lexer + atheris text fuzzing")
LEVEL_TEXT = ("Generated-input search over strings x comment styles x entry "
              "points against a metamorphic relation decided by an "
              "independent lexer; exploration with hostile fragments planted "
              "by construction, class counts in the evidence.")

STYLES = [";", "(", "[", "{", "<", '"', "'", "/*", "#", "//", "%"]
ENTRIES = ["comment", "comment_args", "annotate", "move", "rapid", "probe",
           "set_axis", "auto_home", "move_absolute", "rapid_absolute",
           "emergency_halt"]
EOLS = ["lf", "crlf"]


def split_any_newline(text):
    """Blocks as a controller sees them: broken at CRLF, LF or CR."""
    lines, cur, i = [], [], 0
    while i < len(text):
        c = text[i]
        if c == "\r":
            lines.append("".join(cur))
            cur = []
            if i + 1 < len(text) and text[i + 1] == "\n":
                i += 1
        elif c == "\n":
            lines.append("".join(cur))
            cur = []
        else:
            cur.append(c)
        i += 1
    if cur:
        lines.append("".join(cur))
    return lines


def executable(data, style):
    text = bytes(data).decode("utf-8")
    out = []
    for line in split_any_newline(text):
        words, _ = gcode_lex.parse_block(line, style, strict=False)
        out.append([repr(w) for w in words])
    return out


def _passthrough_hook(origin, target, params, state):
    return params


PADS = ["{}", "{} ", " {}", " {} ", "\t{}", "{}\n"]


def run_entry(style, eol, entry, text, prev_style=None, hook=False, pad=0, other=None,
              rejected_restyle=False):
    import gscrib
    cfg_eol, _ = eol_of(eol)
    # the style may be configured with surrounding blanks (the library strips them)
    style_cfg = PADS[pad % len(PADS)].format(style)
    g = gscrib.GCodeBuilder(comment_symbols=prev_style or style_cfg, line_endings=cfg_eol)
    if rejected_restyle:
        # a style change that is refused (blank symbols) must leave the
        # configured style - the sanitising of its closing symbol included - alone
        for bad in ("  ", ""):
            try:
                g.format.set_comment_symbols(bad)
            except ValueError:
                pass
    if other is not None:
        # ANOTHER builder (other comment style) is created and used after this
        # one: nothing of its configuration may reach this builder's formatter
        o = gscrib.GCodeBuilder(comment_symbols=other)
        o.add_writer(recorder_class()())
        o.comment("other " + text[:20])
    rec = recorder_class()()
    g.add_writer(rec)
    if hook:
        g.add_hook(_passthrough_hook)
    if prev_style is not None:
        # the same text was already used on this builder under another comment
        # style; then the style is changed (a formatter must not remember it)
        _emit(g, entry, text)
        g.format.set_comment_symbols(style_cfg)
        del rec.data[:]
    _emit(g, entry, text)
    return bytes(rec.data)


def _emit(g, entry, text):
    if entry == "comment":
        g.comment(text)
    elif entry == "comment_args":
        g.comment("note", text, 7)
    elif entry == "annotate":
        g.annotate("key", text)
    elif entry == "move":
        g.move(x=1, y=2, F=100, comment=text)
    elif entry == "rapid":
        g.rapid(z=5, comment=text)
    elif entry == "probe":
        g.probe("towards", z=-5, F=50, comment=text)
    elif entry == "set_axis":
        g.set_axis(x=0, comment=text)
    elif entry == "auto_home":
        g.auto_home(comment=text)
    elif entry == "move_absolute":
        g.move_absolute(x=3, comment=text)
    elif entry == "rapid_absolute":
        g.rapid_absolute(y=4, comment=text)
    elif entry == "emergency_halt":
        g.emergency_halt(text)


def check(case):
    style, eol, entry, text = case["style"], case["eol"], case["entry"], case["text"]
    prev = case.get("prev_style")
    if prev == style:
        prev = None
    try:
        base = run_entry(style, eol, entry, "x", prev, bool(case.get("hook")), case.get("pad", 0),
                         case.get("other"), bool(case.get("rejected_restyle")))
    except Exception as e:
        raise Violation(f"style {style!r}: {entry} with an innocuous comment "
                        f"raised {type(e).__name__}: {e}")
    try:
        out = run_entry(style, eol, entry, text, prev, bool(case.get("hook")), case.get("pad", 0),
                        case.get("other"), bool(case.get("rejected_restyle")))
    except ValueError:
        return "rejected"
    except Exception as e:
        raise Violation(f"style {style!r}: {entry}(text={text!r}) raised "
                        f"{type(e).__name__}: {e}")
    eb = executable(base, style)
    eo = executable(out, style)
    if len(eo) != len(eb):
        raise Violation(f"style {style!r} {entry}: {len(eo)} lines with text "
                        f"{text!r}, {len(eb)} with 'x'; output={out!r}")
    if eo != eb:
        raise Violation(f"style {style!r} {entry}: executable words differ with "
                        f"text {text!r}: {eo!r} vs {eb!r}; output={out!r}")
    return "ok"


def classes_of(case):
    t = case["text"]
    cl = ["style:" + case["style"], "entry:" + case["entry"]]
    if "\n" in t or "\r" in t:
        cl.append("has_line_break")
    close = gcode_lex.BRACKETS.get(case["style"])
    if close and close in t:
        cl.append("has_closing_delimiter")
    if case["style"] in t:
        cl.append("has_opening_delimiter")
    if any(ord(c) > 127 for c in t):
        cl.append("non_ascii")
    if case.get("hook"):
        cl.append("move_hook_registered")
    if case.get("pad"):
        cl.append("style_configured_with_blanks")
    if case.get("other"):
        cl.append("another_builder_created_meanwhile")
    if case.get("rejected_restyle"):
        cl.append("refused_style_change_before")
    if max(t.count("\n") + t.count("\r"), t.count(close) if close else 0) >= 9:
        cl.append("nine_or_more_breaks_or_closers")
    if case.get("prev_style") and case["prev_style"] != case["style"]:
        cl.append("style_changed_on_same_builder")
    return cl


def nontrivial(cl):
    return "has_line_break" in cl or "has_closing_delimiter" in cl


def replay(case):
    check(case)


def strategy():
    from hypothesis import strategies as st
    hostile = st.sampled_from([
        "\n", "\r", "\r\n", "\n\n", ";", "(", ")", "[", "]", "{", "}", "<", ">",
        '"', "'", "/*", "*/", "#", "//", "%", "G1 X999", "M3 S1000", "M112",
        " ", "\t", "{}", "{0}", "%s", "\\n", " ", "é", "✓", "\x00", "\x0b"])
    def text_for(style):
        # fragments aimed at the active style: its delimiters, doubled, and the
        # closing delimiter nested inside itself (c[0] + c + c[1:])
        close = gcode_lex.BRACKETS.get(style)
        aimed = [style, style + style, "\n", "\r"]
        if close:
            aimed += [close, close + close, close[0] + close + close[1:],
                      close + " G1 X5 " + style]
            # compatibility (full-width) forms that a normalisation step would
            # fold into the real delimiter
            fw = "".join(chr(ord(c) + 0xFEE0) if 0x21 <= ord(c) <= 0x7E else c for c in close)
            aimed += [fw, fw + " M112 ", "\uff1b", "\u2028", "\u0085"]
        frag = st.one_of(hostile, st.sampled_from(aimed), st.sampled_from(aimed),
                         st.text(max_size=6),
                         st.text(alphabet="GMXYZ0123456789 .-", max_size=8))
        short = st.lists(frag, min_size=0, max_size=7).map("".join)
        # the same hostile fragment many times over (a pasted multi-line header;
        # sanitisers that only handle the first few occurrences)
        many = st.tuples(st.sampled_from(aimed + ["\n", "\r\n", "\r"]), st.integers(8, 24),
                         st.sampled_from(["", "l", "G0 Z-5 ", "M3 S1 "])).map(
            lambda t: (t[2] + t[0]) * t[1] + t[2])
        return st.one_of(short, short, short, short, many)

    return st.sampled_from(STYLES).flatmap(lambda sty: st.fixed_dictionaries({
        "style": st.just(sty), "eol": st.sampled_from(EOLS),
        "entry": st.sampled_from(ENTRIES), "text": text_for(sty),
        "prev_style": st.one_of(st.none(), st.none(), st.sampled_from(STYLES)),
        "hook": st.sampled_from([False, False, True]),
        "pad": st.sampled_from([0, 0, 0, 1, 2, 3, 4, 5]),
        "other": st.sampled_from([None, None, ";", "(", "/*", "["]),
        "rejected_restyle": st.sampled_from([False, False, True])}))


def run_shard(ctx):
    n = 1200 if ctx.tier == "quick" else 30000

    def body(case):
        r = check(case)
        cl = classes_of(case)
        if r == "rejected":
            cl.append("rejected_with_ValueError")
        ctx.case(case, nontrivial=nontrivial(cl), classes=cl)

    run_hypothesis(ctx, strategy(), body, n)
    if ctx.tier == "thorough" and ctx.shard < 4:
        _atheris(ctx)


def _atheris(ctx):
    try:
        import atheris
    except Exception:
        ctx.notes.append("atheris not importable; fuzz tier skipped")
        return
    import json
    import os
    import shutil
    import tempfile
    corpus = tempfile.mkdtemp(prefix="c09fuzz")
    r, w = os.pipe()
    pid = os.fork()
    if pid == 0:
        os.close(r)
        out = os.fdopen(w, "w")
        counter = {"n": 0, "nt": set()}
        runs = 40000

        def tgt(data):
            counter["n"] += 1
            if len(data) >= 2:
                case = {"style": STYLES[data[0] % len(STYLES)],
                        "eol": EOLS[(data[0] >> 4) % 2],
                        "entry": ENTRIES[data[1] % len(ENTRIES)],
                        "text": data[2:].decode("utf-8", "replace")}
                try:
                    check(case)
                except Violation as e:
                    json.dump({"violation": {"case": case, "msg": str(e)}}, out)
                    out.flush()
                    os._exit(0)
                if nontrivial(classes_of(case)):
                    counter["nt"].add(bytes(data))
            if counter["n"] >= runs:
                json.dump({"n": counter["n"], "nt": len(counter["nt"])}, out)
                out.flush()
                os._exit(0)
        devnull = os.open(os.devnull, os.O_WRONLY)
        os.dup2(devnull, 2)
        seeds = os.path.join(corpus, "seed1")
        with open(seeds, "wb") as f:
            f.write(b"\x01\x00hello ) G1 X5 (\n")
        atheris.Setup(["c09fuzz", "-seed=%d" % (ctx.seed & 0x7FFFFFFF or 1),
                       "-runs=%d" % (runs + 10), "-max_len=40", corpus], tgt)
        atheris.Fuzz()
        os._exit(0)
    os.close(w)
    with os.fdopen(r) as fh:
        txt = fh.read()
    os.waitpid(pid, 0)
    shutil.rmtree(corpus, ignore_errors=True)
    if not txt:
        ctx.notes.append("atheris child produced no report")
        return
    rep = json.loads(txt)
    if "violation" in rep:
        ctx.violation(rep["violation"]["case"], rep["violation"]["msg"], "atheris")
        return
    ctx.count("atheris_runs", rep["n"])
    ctx.count("atheris_nontrivial_texts", rep["nt"])
    ctx.evaluations += rep["n"]
