"""C01 — the emitted program reproduces the tracked position.

History generator over the motion API (no transform).  After every call the
lines emitted since the previous call go through the independent lexer and
modal interpreter; machine position and distance mode are compared with what
the builder reports.
"""

from fractions import Fraction

from vf.runner import Violation, run_hypothesis
from vf.common import Session, ulp
from vf import hist

ID = "C01"
LEVEL = "exploration"
SHARDS = {"quick": 8, "thorough": 16}
RULE = ("cases = (decimal_places 0..9, line ending, axis labels (default, relabelled, "
        "X/Y swapped), list of <=25 ops: "
        "move/rapid/move_absolute/rapid_absolute with any subset of x/y/z as "
        "kwargs, list or Point; set_axis; auto_home; probe (4 modes); "
        "set_distance_mode; nested absolute_mode()/relative_mode() contexts "
        "whose body may raise (an Exception or a BaseException); interleaved "
        "non-motion calls (extrusion/feed mode, plane, units, comments) and "
        "other builders with a different configuration created meanwhile; an "
        "axis relabelled in the middle of the history (rename_axis / "
        "format.set_axis_label); the decimal places changed in the middle of "
        "the history; the conversion helpers to_absolute / "
        "to_absolute_list / to_distance_mode; optionally axes limits in force so "
        "that calls are rejected mid-history; helpers compared with their documented "
        "formula and required to change nothing; the "
        "eight tracer shapes built valid from the "
        "current position); non-trivial = history with a relative move after "
        "a G92/home/probe, or a mode context, or a tracer op; distinct by SHA-1")
ASSUMPTIONS = [
    "machine semantics: G0/G1/G90/G91/G92/G28/G38.x as in vf/machine.py; the "
    "machine starts in absolute mode with unknown coordinates",
    "tolerance per axis: U(dp in force when the axis was last assigned "
    "absolutely) + sum of U(dp) over the relative increments since + U(current "
    "dp) + (k+2)*8*ulp(largest magnitude seen), k = number of those increments",
    "a tracer request the library rejects with ValueError (numerically "
    "invalid geometry) is a rejected call, not a violation; position "
    "agreement is still required afterwards",
]
TECHNIQUE = ("model-based property testing (Hypothesis op lists) against an "
             "independent G-code interpreter, compared after every call")
LEVEL_TEXT = ("Generated call histories (thousands per run, shrunk on failure) "
              "interpreted by an independent lexer+machine after every call; "
              "exploration of the history space with measured class coverage.")


def make_checker(s, ctx_classes):
    st = {"maxmag": 1.0, "motion_seen": False}
    # rounding budget per axis: the precision in force when the axis was last
    # assigned absolutely, plus the precision of every relative step since
    # (the precision may change in the middle of a history)
    budget = {a: Fraction(0) for a in "XYZ"}
    steps_seen = {a: 0 for a in "XYZ"}
    s.budget = budget

    def account(words, raw):
        m = s.machine
        for a in "XYZ":
            if m.rel_steps[a] == 0:
                if any(m.labels.get(w.letter) == a for w in words) or m.pos[a] is None:
                    budget[a] = s.U
                    steps_seen[a] = 0
            elif m.rel_steps[a] != steps_seen[a]:
                budget[a] += s.U * (m.rel_steps[a] - steps_seen[a])
                steps_seen[a] = m.rel_steps[a]

    def check(op, exc):
        g, m = s.g, s.machine
        name = op["op"]
        if exc is not None:
            ctx_classes.add("call_raised:" + type(exc).__name__)
        s.poll(account)
        pos = g.position
        for a, v in zip("XYZ", pos):
            if v is not None:
                st["maxmag"] = max(st["maxmag"], abs(float(v)))
        for a, v in zip("XYZ", pos):
            mv = m.pos[a]
            if mv is None or v is None:
                continue
            k = m.rel_steps[a]
            tol = budget[a] + s.U + Fraction((k + 2) * 8 * ulp(st["maxmag"]))
            if abs(mv - Fraction(float(v))) > tol:
                raise Violation(
                    f"after {op!r}: machine {a}={float(mv)!r} but builder reports "
                    f"{a}={float(v)!r} (diff {float(abs(mv - Fraction(float(v)))):.3e}, "
                    f"tol {float(tol):.3e}, rel steps {k}); last lines "
                    f"{[b[2] for b in s.blocks[-4:]]!r}")
        rel_b = g.distance_mode.is_relative
        rel_s = g.state.distance_mode.is_relative
        if not (m.relative == rel_b == rel_s):
            raise Violation(f"after {op!r}: distance mode machine="
                            f"{'rel' if m.relative else 'abs'} builder="
                            f"{g.distance_mode.value} state={g.state.distance_mode.value}")
        if name.startswith("exit:") and g.distance_mode.value != op["prev_mode"]:
            # documented: "automatically restores the previous mode when
            # exiting the context" (also when the body raises)
            raise Violation(f"{op!r}: distance mode on exit is "
                            f"{g.distance_mode.value}, was {op['prev_mode']} on entry")
        if name in ("move", "rapid", "move_absolute", "rapid_absolute",
                    "set_axis", "auto_home", "probe", "shape") and exc is None:
            st["motion_seen"] = True
        if st["motion_seen"]:
            sp = g.state.position
            if tuple(sp) != tuple(pos):
                raise Violation(f"after {op!r}: state.position {tuple(sp)!r} != "
                                f"builder.position {tuple(pos)!r}")
    return check


def make_before(s, classes):
    """Ops that emit nothing, carried out here because they need the session:
    relabelling an axis mid-history (the interpreter switches to the new
    label for the lines emitted from now on) and the conversion helpers."""
    POOL = ["A", "B", "C", "U", "V", "W", "X", "Y", "Z"]

    def before(op):
        g = s.g
        if op["op"] == "relabel":
            s.poll()
            ax = op["axis"].upper()
            used = {lab for a, lab in s.axis_labels.items() if a != ax}
            # a label another axis is using would make the program ambiguous:
            # take the next free one (resolved at execution time)
            lab = next(l for l in [op["label"]] + POOL if l.strip().upper() not in used)
            try:
                if op["via"] == "rename_axis":
                    g.rename_axis(op["axis"], lab)
                else:
                    g.format.set_axis_label(op["axis"], lab)
            except Exception as e:
                raise Violation(f"renaming axis {op['axis']} to {lab!r} raised "
                                f"{type(e).__name__}: {e}")
            if s.new_bytes():
                raise Violation(f"renaming an axis emitted {s.new_bytes()!r}")
            s.axis_labels[ax] = lab.strip().upper()
            s.machine.labels = {l: a for a, l in s.axis_labels.items()}
            classes.add("relabelled_mid_history")
        elif op["op"] == "precision":
            s.poll(getattr(s, "_account", None))
            g.format.set_decimal_places(op["dp"])
            s.dp = op["dp"]
            s.U = Fraction(1, 2) / (Fraction(10) ** op["dp"])
            classes.add("decimal_places_changed_mid_history")
        elif op["op"] == "query":
            from gscrib.geometry import Point
            pos = tuple(g.position)
            org = [0.0 if c is None else float(c) for c in pos]
            rel = g.distance_mode.is_relative
            pts = [Point(p.get("x"), p.get("y"), p.get("z")) for p in op["pts"]]
            exp = []
            cur = list(org)
            try:
                if op["fn"] == "to_absolute_list":
                    got = [tuple(q) for q in g.to_absolute_list(pts)]
                    for q in pts:
                        cur = [c + (0.0 if v is None else v) if rel else (c if v is None else v)
                               for c, v in zip(cur, q)]
                        exp.append(tuple(cur))
                elif op["fn"] == "to_absolute":
                    got = [tuple(g.to_absolute(pts[0]))]
                    exp = [tuple(c + (0.0 if v is None else v) if rel else (c if v is None else v)
                                 for c, v in zip(org, pts[0]))]
                else:
                    got = [tuple(g.to_distance_mode(pts[0]))]
                    tgt = [0.0 if v is None else v for v in pts[0]]
                    exp = [tuple(t - c if rel else t for t, c in zip(tgt, org))]
            except Exception as e:
                raise Violation(f"{op['fn']}({op['pts']!r}) raised {type(e).__name__}: {e}")
            for gq, eq in zip(got, exp):
                for a, b in zip(gq, eq):
                    if a is None or abs(float(a) - b) > 8 * ulp(max(1.0, abs(b), *map(abs, org))) * len(pts):
                        raise Violation(f"{op['fn']}({op['pts']!r}) at position {pos} in "
                                        f"{'relative' if rel else 'absolute'} mode = {got}, "
                                        f"expected {exp}")
            if len(got) != len(exp):
                raise Violation(f"{op['fn']} returned {len(got)} points for {len(exp)}")
            if s.new_bytes() or tuple(g.position) != pos:
                raise Violation(f"{op['fn']} changed the builder (position {pos} -> "
                                f"{tuple(g.position)}, output {s.new_bytes()!r})")
            classes.add("conversion_helper")
    return before


def classify(ops):
    cl = set()
    seen_reset = False
    rel = False

    def walk(ops, rel, depth):
        nonlocal seen_reset
        for op in ops:
            n = op["op"]
            if n == "set_distance_mode":
                rel = op["mode"] == "relative"
            elif n in ("set_axis", "auto_home", "probe"):
                seen_reset = True
                cl.add(n)
            elif n in ("move_absolute", "rapid_absolute"):
                if rel:
                    cl.add("bypass_in_relative")
                    if len(op["pt"]) == 1:
                        cl.add("bypass_in_relative_single_axis")
            elif n in ("move", "rapid"):
                if rel and seen_reset:
                    cl.add("relative_after_reset")
                if rel:
                    cl.add("relative_move")
            elif n == "other_builder":
                cl.add("other_builder_created")
            elif n == "shape":
                cl.add("tracer")
                cl.add("tracer:" + op["d"]["shape"])
                if rel:
                    cl.add("tracer_in_relative")
            elif n == "ctx":
                cl.add("context")
                if depth >= 1:
                    cl.add("nested_context")
                if op.get("raise"):
                    cl.add("context_raised")
                if op.get("raise") == "base":
                    cl.add("context_raised_BaseException")
                walk(op["body"], op["kind"] == "relative_mode", depth + 1)
        return rel
    walk(ops, rel, 0)
    return cl


def run_case(case, classes=None):
    classes = set() if classes is None else classes
    s = Session(dp=case["dp"], eol=case["eol"], labels=case.get("labels"))
    if case.get("box"):
        # axes limits in force: some calls of the history are then rejected, and
        # a rejected call must leave machine and builder in agreement as well
        s.g.set_bounds("axes", case["box"][0], case["box"][1])
        classes.add("axes_bounds_set")
    check = make_checker(s, classes)
    hist.run_ops(s.g, case["ops"], check, make_before(s, classes))
    return classes


def replay(case):
    run_case(case)


def _eighths():
    from hypothesis import strategies as st
    v = st.integers(-79, 79).map(lambda k: k / 8.0)
    return st.fixed_dictionaries({"x": v}, optional={"y": v, "z": v})


def _macro_precision():
    """A point emitted at a coarse precision, the precision raised, the very
    same point visited again: nothing of the coarse rounding may be reused."""
    from hypothesis import strategies as st
    return st.tuples(_eighths(), _eighths(), st.integers(0, 1), st.integers(3, 6)).map(
        lambda t: [{"op": "precision", "dp": t[2]},
                   {"op": "move", "pt": t[0], "form": "kw"},
                   {"op": "precision", "dp": t[3]},
                   {"op": "move", "pt": t[1], "form": "kw"},
                   {"op": "move", "pt": t[0], "form": "kw"}])


def _macro_rezero():
    """The same absolute move issued again right after a re-zeroing, homing or
    probing (nothing else in between): it is a different move now."""
    from hypothesis import strategies as st
    mid = st.one_of(
        _eighths().map(lambda p: {"op": "set_axis", "pt": p, "form": "kw"}),
        st.just({"op": "auto_home", "pt": {"x": 0.0}, "form": "kw"}),
        _eighths().map(lambda p: {"op": "probe", "mode": "towards", "pt": p, "form": "kw"}))
    return st.tuples(_eighths(), mid, st.sampled_from(["move", "rapid"])).map(
        lambda t: [{"op": "set_distance_mode", "mode": "absolute"},
                   {"op": t[2], "pt": t[0], "form": "kw"}, t[1],
                   {"op": t[2], "pt": t[0], "form": "kw"}])


def strategy(max_ops):
    from hypothesis import strategies as st
    single = hist.motion_op_strategy().map(lambda o: [o])
    mp, mr = _macro_precision(), _macro_rezero()
    return st.fixed_dictionaries({
        "dp": st.integers(0, 9),
        "eol": st.sampled_from(["lf", "crlf"]),
        "labels": st.sampled_from([None, None, None, {"X": "A", "Y": "B", "Z": "C"},
                                   {"X": "Y", "Y": "X"}, {"Z": "W"}]),
        "box": st.sampled_from([None, None, None, [[-20.0, -20.0, -20.0], [20.0, 20.0, 20.0]],
                                [[0.0, 0.0, 0.0], [100.0, 100.0, 50.0]],
                                [[-1000.0, -1000.0, -5.0], [1000.0, 1000.0, 5.0]]]),
        "ops": st.tuples(
            st.sampled_from([[], [], [{"op": "set_distance_mode", "mode": "relative"}]]),
            st.lists(st.integers(0, 11).flatmap(
                lambda k: mp if k == 0 else mr if k == 1 else single),
                min_size=1, max_size=max_ops).map(lambda ll: [o for l in ll for o in l])
        ).map(lambda t: t[0] + t[1]),
    })


def run_shard(ctx):
    n = 400 if ctx.tier == "quick" else 15000
    max_ops = 20 if ctx.tier == "quick" else 30

    def body(case):
        cl = classify(case["ops"])
        if case["dp"] == 0:
            cl.add("dp0")
        run_case(case, cl)
        nt = bool(cl & {"relative_after_reset", "context", "tracer"})
        ctx.case(case, nontrivial=nt, classes=sorted(cl),
                 steps=hist.count_ops(case["ops"]))

    run_hypothesis(ctx, strategy(max_ops), body, n)
