"""C06 — the tool and coolant can always be switched off.

Histories that reach every tool/coolant state under generated bounds
configurations (set before or after the tool was started, including tool-power
ranges that exclude zero), followed by one of tool_off / power_off /
coolant_off / emergency_halt.  Thorough adds the exhaustive product of
{tool states} x {coolant states} x {bounds configurations} x {shutdown calls}.
"""

import itertools

from vf.runner import Violation, run_hypothesis
from vf.common import Session, apply_call
from vf import statehist as sh
from vf.statehist import C

ID = "C06"
LEVEL = "exploration"
SHARDS = {"quick": 8, "thorough": 16}
EXHAUSTIVE = {"quick": False, "thorough": False}   # only the product sub-space is enumerated completely (see RULE)
RULE = ("cases = (prefix history of <=12 state-tracked calls incl. set_bounds "
        "on any of the seven properties, tool started through either API at "
        "any power, power changed by S= on a move or set_tool_power, coolant "
        "in any mode, halts, temperatures, units) + one shutdown call out of "
        "tool_off/power_off/coolant_off/emergency_halt(message, reset); plus "
        "the exhaustive product 5 tool states x 3 coolant states x 5 bounds "
        "configurations (none, including 0, excluding 0 set before, excluding "
        "0 set after, all seven set) x 5 shutdown calls; non-trivial = tool or "
        "coolant actually on, or a tool-power range excluding zero in force; "
        "distinct by SHA-1")
ASSUMPTIONS = [
    "prefix calls that are rejected (interlocks, bounds) are simply skipped; "
    "only the final shutdown call is judged",
    "expected program: tool_off/power_off -> [M05]; coolant_off -> [M09]; "
    "emergency_halt -> [M05, M09, comment-only line containing the message, "
    "M00 | M30]",
]
TECHNIQUE = ("property-based testing (Hypothesis histories x bounds "
             "configurations) + exhaustive enumeration of the finite state product")
LEVEL_TEXT = ("Generated prefix histories crossed with bounds configurations, "
              "and the complete finite product of tool/coolant/bounds states x "
              "shutdown calls; the emitted program is re-interpreted. The "
              "product tier is exhaustive for the space it enumerates.")

BOUND_NAMES = ["axes", "bed-temperature", "chamber-temperature",
               "hotend-temperature", "feed-rate", "tool-number", "tool-power"]
SHUTDOWN = [C("tool_off"), C("power_off"), C("coolant_off"),
            C("emergency_halt", "jam", False), C("emergency_halt", "limit ✓ hit", True)]


def codes_of(blocks):
    from vf.machine import norm_code
    out = []
    for words, comments, raw in blocks:
        cs = [norm_code(w) for w in words if w.letter in ("G", "M")]
        out.append((cs, [w for w in words if w.letter not in ("G", "M")], comments))
    return out


def run_case(case, cl=None):
    cl = set() if cl is None else cl
    s = Session(dp=4)
    g = s.g
    for call in case["prefix"]:
        try:
            apply_call(g, call)
        except Exception:
            cl.add("prefix_call_rejected")
    s.poll()
    st = g.state
    tool_was, cool_was = st.is_tool_active, st.is_coolant_active
    lo, hi = st.get_bounds("tool-power")
    if tool_was:
        cl.add("tool_on")
    if cool_was:
        cl.add("coolant_on")
    if lo is not None and not (lo <= 0 <= hi):
        cl.add("tool_power_bounds_exclude_zero")
    final = case["final"]
    try:
        apply_call(g, final)
    except Exception as e:
        raise Violation(f"{final!r} raised {type(e).__name__}: {e} "
                        f"(tool_on={tool_was}, coolant_on={cool_was}, "
                        f"tool-power bounds={(lo, hi)}); prefix={case['prefix']!r}")
    blocks = codes_of(s.poll())
    op = final["op"]
    got = [b[0] for b in blocks]
    if op in ("tool_off", "power_off"):
        if got != [["M5"]]:
            raise Violation(f"{op} emitted {got!r}, expected [[M5]]")
    elif op == "coolant_off":
        if got != [["M9"]]:
            raise Violation(f"coolant_off emitted {got!r}, expected [[M9]]")
    else:
        msg, reset = final["args"]
        exp_last = "M30" if reset else "M0"
        if len(got) != 4 or got[0] != ["M5"] or got[1] != ["M9"] or got[2] != [] \
                or got[3] != [exp_last]:
            raise Violation(f"emergency_halt emitted {got!r}, expected "
                            f"[[M5],[M9],[],[{exp_last}]]")
        if blocks[2][1] or not blocks[2][2] or msg not in blocks[2][2][0]:
            raise Violation(f"emergency_halt: third line is not a comment with "
                            f"the message: {blocks[2]!r}")
    if op in ("tool_off", "power_off", "emergency_halt"):
        if st.is_tool_active or s.machine.tool_on:
            raise Violation(f"after {op}: is_tool_active={st.is_tool_active} "
                            f"program tool_on={s.machine.tool_on}")
    if op in ("coolant_off", "emergency_halt"):
        if st.is_coolant_active or s.machine.coolant is not None:
            raise Violation(f"after {op}: is_coolant_active={st.is_coolant_active} "
                            f"program coolant={s.machine.coolant}")
    if op == "coolant_off" and (st.is_tool_active != tool_was):
        raise Violation("coolant_off changed the tool state")
    if op in ("tool_off", "power_off") and (st.is_coolant_active != cool_was):
        raise Violation(f"{op} changed the coolant state")
    return cl


def replay(case):
    run_case(case)


def bounds_strategy():
    from hypothesis import strategies as st
    num = st.one_of(st.integers(-100, 2000).map(float),
                    st.floats(min_value=-1e3, max_value=1e4, allow_nan=False))
    pair = st.tuples(num, num).filter(lambda t: t[0] != t[1]).map(
        lambda t: (min(t), max(t)))
    scalar = st.tuples(st.sampled_from(BOUND_NAMES[1:]), pair).map(
        lambda t: C("set_bounds", t[0],
                    *(t[1] if t[0] != "tool-number" else (int(t[1][0]), int(t[1][1]) + 1))))
    tp = st.sampled_from([(10, 100), (0.5, 1e4), (-5, 100), (0, 1000), (1, 2),
                          (-100, -1)]).map(lambda t: C("set_bounds", "tool-power", *t))
    box = st.tuples(st.integers(-50, 0), st.integers(1, 60)).map(
        lambda t: C("set_bounds", "axes", [t[0]] * 3, [t[1]] * 3))
    return st.one_of(scalar, tp, tp, box)


def strategy():
    from hypothesis import strategies as st
    from vf.hist import weighted
    call = weighted((4, sh.call_strategy()), (2, sh.call_strategy(extras=False)),
                    (2, bounds_strategy()))
    return st.fixed_dictionaries({
        "prefix": st.lists(call, min_size=0, max_size=12),
        "final": st.sampled_from(SHUTDOWN)})


TOOL_STATES = [[], [C("tool_on", "cw", 1000)], [C("tool_on", "ccw", 20)],
               [C("power_on", "constant", 50)], [C("power_on", "dynamic", 100)]]
COOL_STATES = [[], [C("coolant_on", "mist")], [C("coolant_on", "flood")]]
EXCL = C("set_bounds", "tool-power", 10, 2000)
INCL = C("set_bounds", "tool-power", 0, 2000)
ALL7 = [C("set_bounds", "axes", [0, 0, 0], [10, 10, 10]),
        C("set_bounds", "bed-temperature", 20, 120),
        C("set_bounds", "chamber-temperature", 20, 80),
        C("set_bounds", "hotend-temperature", 150, 300),
        C("set_bounds", "feed-rate", 100, 5000),
        C("set_bounds", "tool-number", 1, 10),
        C("set_bounds", "tool-power", 10, 2000)]


def product_cases():
    for tool, cool, bcfg, final in itertools.product(
            TOOL_STATES, COOL_STATES, range(5), SHUTDOWN):
        if bcfg == 0:
            prefix = tool + cool
        elif bcfg == 1:
            prefix = [INCL] + tool + cool
        elif bcfg == 2:
            prefix = [EXCL] + tool + cool
        elif bcfg == 3:
            prefix = tool + cool + [EXCL]
        else:
            prefix = ALL7 + tool + cool
        yield {"prefix": prefix, "final": final}


def run_shard(ctx):
    n = 400 if ctx.tier == "quick" else 20000

    def body(case):
        cl = run_case(case, set())
        nt = bool(cl & {"tool_on", "coolant_on", "tool_power_bounds_exclude_zero"})
        ctx.case(case, nontrivial=nt, classes=sorted(cl),
                 steps=len(case["prefix"]) + 1)

    run_hypothesis(ctx, strategy(), body, n)
    for i, case in enumerate(product_cases()):
        if i % ctx.nshards != ctx.shard:
            continue
        try:
            cl = run_case(case, set())
        except Violation as v:
            ctx.violation(case, str(v), "product")
            continue
        nt = bool(cl & {"tool_on", "coolant_on", "tool_power_bounds_exclude_zero"})
        ctx.case(case, nontrivial=nt, classes=["product"] + ["prod:" + c for c in cl],
                 steps=len(case["prefix"]) + 1)
