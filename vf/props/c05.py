"""C05 — a rejected command has no effect.

A history of valid calls (moves, modes, tool/coolant, temperatures, bounds)
interleaved with *poisoned* single-command calls: a valid template with exactly
one thing spoiled, chosen so that the failure happens at the first, a middle
or the last validation step.  Whenever a call raises: zero bytes reached the
writer and a snapshot of every observable piece of state equals the snapshot
before the call (NaN-aware).  Differential second oracle: a shadow builder
receives only the calls that succeeded; both byte streams and final snapshots
must be identical.
"""

import math

from vf.runner import Violation, run_hypothesis
from vf.common import Session, apply_call
from vf import statehist as sh
from vf.statehist import C

ID = "C05"
LEVEL = "exploration"
SHARDS = {"quick": 8, "thorough": 16}
RULE = ("cases = list of <=25 calls; valid ones from the state-tracked API "
        "(moves in both distance modes, tool, coolant, halts, temperatures, "
        "set_bounds) and poisoned single-command calls of 30 kinds (out-of-"
        "bounds coordinate with valid F/S, valid coordinate with negative/NaN/"
        "inf/out-of-bounds F or S, non-finite coordinate or custom parameter, "
        "bad enum string, tool_on/power_on with bad speed or while active, "
        "tool_change with bad number or under an interlock, waiting halt with "
        "temperature outside bounds/non-finite or with the tool on, setters "
        "with invalid values, probe with valid target and bad F, absolute-"
        "bypass moves in relative mode, immediate retries of the same call); non-trivial = a raising call issued "
        "from a non-initial state whose failing check is not the first one the "
        "command performs (kinds tagged 'late'); distinct by SHA-1")
ASSUMPTIONS = [
    "single-command calls only: emergency_halt and tracer paths are "
    "sequences of commands and are not judged for atomicity",
    "no move hooks are installed (a hook may add parameters that cannot be "
    "validated before it runs)",
    "state.halt_mode is part of the snapshot; every successful write resets "
    "it to OFF by design",
]
TECHNIQUE = ("model-free property-based testing (Hypothesis histories with "
             "fault-injected arguments): before/after snapshot equality on "
             "every raising call + differential run against a shadow builder")
LEVEL_TEXT = ("Generated histories with poisoned calls aimed at each "
              "validation stage; judged by snapshot equality and by a "
              "differential shadow run. Exploration with per-kind counters.")

NAN, INF = float("nan"), float("inf")
PROBE_PTS = [(0.0, 0.0, 0.0), (1.0, 2.0, 3.0), (-5.0, 7.5, 0.25)]
LETTERS = ["F", "S", "E", "A", "P", "X", "Y", "Z", "T", "R"]
BOUNDS = ["axes", "bed-temperature", "chamber-temperature",
          "hotend-temperature", "feed-rate", "tool-number", "tool-power"]


def snapshot(g):
    st = g.state
    snap = {
        "position": tuple(g.position),
        "state.position": tuple(st.position),
        "distance_mode": g.distance_mode.value,
        "state.distance_mode": st.distance_mode.value,
        "feed_rate": st.feed_rate, "tool_power": st.tool_power,
        "is_tool_active": st.is_tool_active, "is_coolant_active": st.is_coolant_active,
        "spin_mode": st.spin_mode.value, "power_mode": st.power_mode.value,
        "coolant_mode": st.coolant_mode.value, "halt_mode": st.halt_mode.value,
        "tool_number": st.tool_number, "tool_swap_mode": st.tool_swap_mode.value,
        "extrusion_mode": st.extrusion_mode.value, "feed_mode": st.feed_mode.value,
        "length_units": st.length_units.value, "time_units": st.time_units.value,
        "temperature_units": st.temperature_units.value, "plane": st.plane.value,
        "direction": st.direction.value, "resolution": st.resolution,
        "hotend": st.target_hotend_temperature, "bed": st.target_bed_temperature,
        "chamber": st.target_chamber_temperature,
    }
    for l in LETTERS:
        snap["param:" + l] = g.get_parameter(l)
        snap["state.param:" + l] = st.get_parameter(l)
    for b in BOUNDS:
        lo, hi = st.get_bounds(b)
        snap["bounds:" + b] = (tuple(lo) if hasattr(lo, "_fields") else lo,
                               tuple(hi) if hasattr(hi, "_fields") else hi)
    for i, p in enumerate(PROBE_PTS):
        snap[f"transform:{i}"] = tuple(g.transform.apply_transform(p))
    return snap


def same(a, b):
    if isinstance(a, tuple) and isinstance(b, tuple):
        return len(a) == len(b) and all(same(x, y) for x, y in zip(a, b))
    if isinstance(a, float) and isinstance(b, float):
        if math.isnan(a) and math.isnan(b):
            return True
    if type(a) is not type(b) and not (isinstance(a, (int, float)) and
                                       isinstance(b, (int, float))):
        return a is None and b is None
    return a == b


def diff(s0, s1):
    return {k: (s0[k], s1[k]) for k in s0 if not same(s0[k], s1[k])}


# ---------------------------------------------------------------------------
# poisoned calls
# ---------------------------------------------------------------------------

BAD_F = [-1.0, -5e-324, NAN, INF, -INF, 1e9, 0.0]  # 1e9 is outside any feed bound we set; 0 outside
BAD_S = [-0.5, NAN, INF, -INF, 1e9, 0.0]           # the bounds that exclude zero (10..5000 / 10..1000)
BAD_COORD = [NAN, INF, -INF]
FAR = [1e7, -1e7]                                  # outside every axes box we set


def poison_strategy():
    from hypothesis import strategies as st
    small = st.one_of(st.integers(-5, 5).map(float), st.integers(-40, 40).map(lambda k: k / 8.0))
    okF = st.sampled_from([100.0, 600, 1200.5])
    okS = st.sampled_from([50.0, 100, 99.5])
    mv = st.sampled_from(["move", "rapid", "move_absolute", "rapid_absolute"])
    axis = st.sampled_from(["x", "y", "z"])
    probe_mode = st.sampled_from(["towards", "away"])

    def K(kind, call):
        return dict(call, _poison=kind)

    opts = [
        # coordinate out of the axes box, valid F (and S): axes check comes after F/S tracking
        st.tuples(mv, axis, st.sampled_from(FAR), okF).map(
            lambda t: K("late:oob_coord_valid_F", C(t[0], F=t[3], **{t[1]: t[2]}))),
        st.tuples(mv, axis, st.sampled_from(FAR), okF, okS).map(
            lambda t: K("late:oob_coord_valid_F_S", C(t[0], F=t[3], S=t[4], E=1.5, **{t[1]: t[2]}))),
        # valid coordinate, bad F / S
        st.tuples(mv, small, st.sampled_from(BAD_F)).map(
            lambda t: K("bad_F", C(t[0], x=t[1], F=t[2]))),
        st.tuples(mv, small, okF, st.sampled_from(BAD_S)).map(
            lambda t: K("late:valid_F_bad_S", C(t[0], y=t[1], F=t[2], S=t[3]))),
        # non-finite coordinate or custom parameter (rejected by the formatter, last stage)
        st.tuples(mv, axis, st.sampled_from(BAD_COORD), okF).map(
            lambda t: K("late:nonfinite_coord_valid_F", C(t[0], F=t[3], **{t[1]: t[2]}))),
        st.tuples(mv, small, st.sampled_from(BAD_COORD), okF).map(
            lambda t: K("late:nonfinite_param_valid_F", C(t[0], x=t[1], E=t[2], F=t[3]))),
        # a valid, fast feed: with the power hook installed and tool-power limits
        # the move is rejected because of the S the hook derives (3000/20 = 150)
        st.tuples(st.sampled_from(["move", "move_absolute"]), small,
                  st.sampled_from([3000.0, 4000.0, 30000.0])).map(
            lambda t: K("late:hook_makes_S_invalid", C(t[0], x=t[1], F=t[2]))),
        # probe
        st.tuples(probe_mode, small, st.sampled_from(BAD_F)).map(
            lambda t: K("late:probe_bad_F", C("probe", t[0], z=t[1], F=t[2]))),
        st.tuples(probe_mode, st.sampled_from(FAR), okF).map(
            lambda t: K("late:probe_oob_valid_F", C("probe", t[0], z=t[1], F=t[2]))),
        st.tuples(probe_mode, st.sampled_from(BAD_COORD), okF).map(
            lambda t: K("late:probe_nonfinite", C("probe", t[0], x=t[1], F=t[2]))),
        st.just(K("bad_enum", C("probe", "sideways", z=1))),
        # set_axis / auto_home
        st.tuples(axis, st.sampled_from(FAR)).map(
            lambda t: K("late:set_axis_oob", C("set_axis", E=2.0, **{t[0]: t[1]}))),
        st.tuples(axis, st.sampled_from(BAD_COORD)).map(
            lambda t: K("set_axis_nonfinite", C("set_axis", **{t[0]: t[1]}))),
        st.sampled_from(BAD_COORD).map(lambda v: K("auto_home_nonfinite", C("auto_home", x=v))),
        # setters
        st.sampled_from(BAD_F).map(lambda v: K("set_feed_rate", C("set_feed_rate", v))),
        st.sampled_from(BAD_S).map(lambda v: K("set_tool_power", C("set_tool_power", v))),
        st.tuples(st.sampled_from(["set_bed_temperature", "set_hotend_temperature",
                                   "set_chamber_temperature"]),
                  st.sampled_from([NAN, INF, -INF, 1e6, -1e6])).map(
            lambda t: K("set_temperature", C(t[0], t[1]))),
        st.sampled_from([0.0, -1.0, NAN]).map(lambda v: K("set_resolution", C("set_resolution", v))),
        st.sampled_from([-1.0, NAN, INF]).map(lambda v: K("sleep", C("sleep", v))),
        st.sampled_from([-1.0, 256.0, NAN]).map(lambda v: K("set_fan_speed", C("set_fan_speed", v))),
        st.just(K("set_fan_speed", C("set_fan_speed", 10.0, -1))),
        # enums
        st.sampled_from([C("set_distance_mode", "diagonal"), C("set_plane", "xx"),
                         C("set_length_units", "furlongs"), C("set_feed_mode", "fast"),
                         C("set_extrusion_mode", "maybe"), C("coolant_on", "off"),
                         C("coolant_on", "spray"), C("halt", "off"), C("halt", "nap"),
                         C("tool_on", "off", 10), C("power_on", "off", 10),
                         C("set_direction", "up"), C("query", "mood"),
                         C("set_time_units", "hours"), C("set_temperature_units", "f")]).map(
            lambda c: K("bad_enum", c)),
        # tool start
        st.tuples(st.sampled_from(["tool_on", "power_on"]), st.sampled_from(BAD_S)).map(
            lambda t: K("late:tool_start_bad_speed",
                        C(t[0], "cw" if t[0] == "tool_on" else "constant", t[1]))),
        st.tuples(st.sampled_from(["tool_on", "power_on"]), okS).map(
            lambda t: K("tool_start_maybe_active",
                        C(t[0], "ccw" if t[0] == "tool_on" else "dynamic", t[1]))),
        # tool change
        st.sampled_from([0, -3, 10 ** 6]).map(
            lambda n: K("tool_change_bad_number", C("tool_change", "manual", n))),
        st.just(K("tool_change_maybe_interlock", C("tool_change", "automatic", 2))),
        st.just(K("bad_enum", C("tool_change", "off", 2))),
        # halts
        st.tuples(st.sampled_from(["wait-for-bed", "wait-for-hotend", "wait-for-chamber"]),
                  st.sampled_from(["S", "R"]),
                  st.sampled_from([NAN, INF, 1e6, -1e6])).map(
            lambda t: K("late:halt_bad_temperature", C("halt", t[0], **{t[1]: t[2]}))),
        st.tuples(st.sampled_from(["pause", "wait-for-bed", "end-with-reset"])).map(
            lambda t: K("halt_maybe_interlock", C("halt", t[0], S=60))),
        st.sampled_from([NAN, INF]).map(
            lambda v: K("late:halt_nonfinite_extra_param", C("halt", "pause", P=v))),
        # bounds
        st.sampled_from([C("set_bounds", "feed-rate", 10, 10), C("set_bounds", "tool-power", 5, 1),
                         C("set_bounds", "speed", 0, 1), C("set_bounds", "axes", [0, 0, 0], [0, 0, 0]),
                         C("set_bounds", "axes", [1, 1, 1], [0, 2, 2]),
                         C("set_bounds", "feed-rate", "a", 5)]).map(
            lambda c: K("set_bounds_invalid", c)),
    ]
    from vf.hist import equally, weighted
    # fifteen calls with an invalid enum value share one alternative above: they
    # get a share of their own (about one poisoned call in seven)
    enums = st.sampled_from([C("set_distance_mode", "diagonal"), C("set_plane", "xx"),
                             C("set_length_units", "furlongs"), C("set_feed_mode", "fast"),
                             C("set_extrusion_mode", "maybe"), C("coolant_on", "spray"),
                             C("halt", "nap"), C("set_direction", "up"), C("query", "mood"),
                             C("set_time_units", "hours"), C("set_temperature_units", "f"),
                             C("set_length_units", "miles")]).map(lambda c: K("bad_enum", c))
    return weighted((6, equally(*opts)), (1, enums))


def setup_strategy():
    """Bounds that make the 'outside' values really outside."""
    from hypothesis import strategies as st
    return st.lists(st.sampled_from([
        C("set_bounds", "axes", [-100, -100, -100], [100, 100, 100]),
        C("set_bounds", "axes", [0, 0, -10], [50, 50, 10]),
        C("set_bounds", "feed-rate", 10, 5000),
        C("set_bounds", "tool-power", 0, 1000),
        C("set_bounds", "tool-power", 10, 1000),
        C("set_bounds", "tool-power", 0, 100),
        C("set_bounds", "tool-number", 1, 20),
        C("set_bounds", "bed-temperature", 0, 120),
        C("set_bounds", "hotend-temperature", 0, 300),
        C("set_bounds", "chamber-temperature", 0, 80),
        C("tool_on", "cw", 100), C("power_on", "dynamic", 50),
        C("coolant_on", "flood"), C("coolant_on", "mist"),
        C("set_distance_mode", "relative"), C("move", x=1.0, y=2.0, z=3.0),
        {"op": "install_power_hook"},
    ]), min_size=0, max_size=5)


def strategy(n):
    from hypothesis import strategies as st
    valid = sh.call_strategy()
    inter = sh.call_strategy(moves=False, extras=False)
    rep = st.just({"op": "repeat"})
    from vf.hist import weighted
    item = weighted((4, valid), (2, inter), (1, rep), (6, poison_strategy()),
                    (1, setup_strategy().filter(bool).map(lambda l: l[0])))
    # limits tightened while the head is parked outside them on one axis, then a
    # command that does not mention that axis: it still targets a point outside
    small = st.integers(-16, 16).map(lambda k: k / 8.0)
    parked = st.tuples(st.integers(0, 2), st.integers(1, 2), st.booleans(),
                       st.sampled_from(["move", "rapid", "move_absolute", "rapid_absolute",
                                        "move_absolute", "rapid_absolute"]),
                       small, st.booleans()).map(
        lambda t: [{"op": "box_excluding_position", "axis": t[0], "gap": 2.0, "w": 30.0,
                    "below": t[2]}]
        + ([C("set_distance_mode", "relative")] if t[5] else [])
        + [dict(C(t[3], F=600.0, **{"xyz"[(t[0] + t[1]) % 3]: t[4]}),
                _poison="late:unmentioned_axis_parked_outside_box")])
    # tool-power limits, a hook that derives S from F, a valid slow move and
    # then a valid FAST one: rejected because of the word the hook produced
    hooked = st.tuples(st.sampled_from(["move", "move", "move_absolute"]), small,
                       st.sampled_from([3000.0, 4000.0, 2500.0]), st.booleans()).map(
        lambda t: [C("set_bounds", "tool-power", 0, 100), {"op": "install_power_hook"},
                   C("move", x=0.5, F=1200.0)]
        + ([C("set_distance_mode", "relative")] if t[3] else [])
        + [dict(C(t[0], x=t[1], F=t[2]), _poison="late:hook_makes_S_invalid")])
    # limits that exclude 0 and a move whose F (or S) is exactly 0: rejected, and
    # nothing of the call may have been stored before the rejection
    zero_fs = st.tuples(st.sampled_from(["move", "rapid", "move_absolute", "probe"]), small,
                        st.sampled_from(["F", "S"]), st.booleans()).map(
        lambda t: [C("set_bounds", "feed-rate", 10, 5000), C("set_bounds", "tool-power", 10, 1000),
                   C("move", x=0.25, F=600.0, S=50.0)]
        + ([C("set_distance_mode", "relative")] if t[3] else [])
        + [dict(C("probe", "towards", x=t[1], **{t[2]: 0.0}) if t[0] == "probe"
                else C(t[0], x=t[1], **{t[2]: 0.0}), _poison="late:zero_F_or_S_against_limits")])
    one = item.map(lambda c: [c])
    return st.fixed_dictionaries({
        "setup": setup_strategy(),
        # (one_of() flattens nested alternatives and picks uniformly among all
        # leaves: an explicit draw gives the pair a real weight of 1 in 8)
        "calls": st.lists(st.integers(0, 9).flatmap(
            lambda k: parked if k == 0 else hooked if k == 1 else zero_fs if k == 2 else one),
                          min_size=1, max_size=n).map(
            lambda ll: [c for l in ll for c in l])})


def strip(call):
    return {k: v for k, v in call.items() if not k.startswith("_")}


def run_case(case, cl=None):
    cl = set() if cl is None else cl
    s = Session(dp=5)
    shadow = Session(dp=5)
    ok_calls = 0
    for call in case["setup"]:
        try:
            apply_call(s.g, call)
        except Exception:
            continue            # e.g. a second tool start: skipped for both
        apply_call(shadow.g, call)
        ok_calls += 1
    prev_call = None
    LAST["hook"] = any(c.get("op") == "install_power_hook" for c in case["setup"])
    for i, call in enumerate(case["calls"]):
        if call.get("op") == "install_power_hook":
            LAST["hook"] = True
        if call.get("op") == "repeat":
            # the very same call again (an immediate retry of a rejected
            # command must be rejected again, and must still change nothing)
            if prev_call is None:
                continue
            call = prev_call
            cl.add("call_repeated")
        prev_call = call
        real = strip(call)
        kind = call.get("_poison")
        if real["op"] == "emergency_halt":
            continue
        snap0 = snapshot(s.g)
        b0 = len(s.rec.data)
        try:
            apply_call(s.g, real)
            exc = None
        except Exception as e:
            exc = e
        if exc is None:
            try:
                apply_call(shadow.g, real)
            except Exception as e2:
                raise Violation(f"call #{i} {real!r} was accepted, but a builder that never saw "
                                f"the earlier rejected calls rejects it with "
                                f"{type(e2).__name__}: {e2} (a rejected call changed later behaviour)")
            ok_calls += 1
            if kind:
                cl.add("accepted:" + kind)
            continue
        emitted = bytes(s.rec.data[b0:])
        snap1 = snapshot(s.g)
        d = diff(snap0, snap1)
        tag = kind or "valid_call_rejected(" + type(exc).__name__ + ")"
        cl.add("raised:" + tag)
        if ok_calls > 0:
            cl.add("raised_from_non_initial_state")
            if kind and kind.startswith("late:"):
                cl.add("late_check_from_non_initial_state")
        where = (f"call #{i} {real!r} raised {type(exc).__name__}: {exc}")
        LAST["known"] = bool(
            emitted and not d and real["op"] == "move_absolute"
            and LAST.get("hook") and "tool-power" in str(exc)
            and _derived_power_in(real, str(exc))
            and all(l.split(b";")[0].strip() in (b"G90", b"G91")
                    for l in emitted.splitlines() if l.strip()))
        if emitted:
            raise Violation(f"{where} but wrote {emitted!r}")
        if d:
            raise Violation(f"{where} but changed state: {d!r}")
    if bytes(s.rec.data) != bytes(shadow.rec.data):
        a, b = bytes(s.rec.data), bytes(shadow.rec.data)
        k = next((j for j in range(min(len(a), len(b))) if a[j] != b[j]), min(len(a), len(b)))
        raise Violation("output differs from a builder that never saw the rejected "
                        f"calls, first difference at byte {k}: {a[max(0,k-40):k+40]!r} "
                        f"vs {b[max(0,k-40):k+40]!r}")
    d = diff(snapshot(s.g), snapshot(shadow.g))
    if d:
        raise Violation(f"final state differs from a builder that never saw the "
                        f"rejected calls: {d!r}")
    return cl


def _derived_power_in(real, message):
    """True if the rejected value is the S the hook derived (F/20), not a word
    the caller wrote."""
    f = next((v for k_, v in real.get("kw", {}).items() if k_.upper() == "F"), None)
    try:
        return f is not None and (str(f / 20.0) in message or repr(f / 20.0) in message)
    except Exception:
        return False


LAST = {}
KNOWN_ID = "hook-made-rejection-of-bypass-move-writes-mode-switch"


def in_known_class(case):
    """Recorded finding: move_absolute() in relative distance mode runs the move
    hooks inside its temporary absolute-mode block; when a hook produces an
    invalid F/S (the caller's own arguments being valid) the call is rejected
    after G90 was written, and G91 follows.  Class = move_absolute, rejection
    caused by the hook-derived word, state unchanged, only G90/G91 written."""
    return bool(LAST.get("known"))


def replay(case):
    run_case(case)


def run_shard(ctx):
    n = 350 if ctx.tier == "quick" else 15000

    def body(case):
        LAST["known"] = False
        try:
            cl = run_case(case, set())
        except Violation:
            if in_known_class(case):
                ctx.excluded(KNOWN_ID)     # recorded finding: keep searching
                return
            raise
        ctx.case(case, nontrivial="late_check_from_non_initial_state" in cl,
                 classes=sorted(cl), steps=len(case["calls"]))

    run_hypothesis(ctx, strategy(25 if ctx.tier == "quick" else 40), body, n)
