"""C15 — streamed print jobs arrive complete, in order and checksummed.

Real printcore (its own read/print/sender threads) connected through the real
Device to a simulated serial port backed by a Marlin-style line-number /
checksum firmware model.  The harness owns the environment's half of the
schedule: which transmissions are corrupted and after how many polls each
firmware reply becomes readable.
"""

import re
import time

from vf.runner import Violation, HarnessError, run_hypothesis
from vf.firmware import Firmware, patched_serial, xor_checksum

ID = "C15"
LEVEL = "fault_enumeration"
SHARDS = {"quick": 8, "thorough": 16}
RULE = ("cases = (job of 1..25 lines from a small G-code grammar with "
        "trailing ';' and inline or leading '( )' comments, comment-only and blank lines; "
        "set of corrupted transmission indices (first transmissions and "
        "resends alike, so repeated corruption of a resent line is a run); "
        "per-reply latency 0..6 empty polls; resend dialect Marlin 'Resend: N'"
        "+ok / 'Resend:N'+ok / Teacup 'rs N'; greeting 'start' or none); "
        "both tiers place single and adjacent double faults on a fixed 6-line job "
        "(thorough: every pair), and priority commands between two corrupted "
        "transmissions of the first lines; non-trivial = >=1 corrupted transmission; distinct by SHA-1")
ASSUMPTIONS = [
    "thread interleavings inside printcore are the OS's; the harness controls "
    "when each firmware reply becomes readable and which transmissions are "
    "corrupted (the sender's decisions depend on nothing else)",
    "the M110 line-number reset is assumed to arrive intact (Printrun does "
    "not store it for resending; corrupting it is outside 'job line')",
    "firmware model: N<k> <cmd>*<xor>, k must equal last+1; a corrupted line "
    "or a gap is answered with Error.., a resend request for last+1 (and ok "
    "in the Marlin dialects); every received line is answered",
    "a job that is neither finished nor making progress for 3 s with nothing "
    "pending is a deadlock (violation); an exhausted time budget while still "
    "progressing is inconclusive unless the recorded history ends in >= 60 "
    "numbered transmissions, all after the last corrupted one, none of which "
    "the firmware accepted (livelock: resend requests are not being served)",
]
TECHNIQUE = ("fault-injection property testing (Hypothesis jobs x corruption "
             "patterns x reply latencies) of the real sender against a "
             "firmware simulator; exhaustive 1-/2-fault placement (thorough)")
LEVEL_TEXT = ("Generated jobs, fault patterns and latencies against a protocol "
              "simulator; wire format, numbering, resend behaviour and the "
              "firmware's accepted log are judged. Fault enumeration over the "
              "environment's choices; internal thread schedules are not "
              "enumerated.")

CMDS = ["G1 X{a} Y{b}", "G0 Z{a}", "G1 X{a} F{b}", "M104 S{a}", "M106 S{a}", "G92 E0",
        "G28", "M400", "G1 E{a}", "M140 S{b}", "G4 P{a}", "T{c}", "M84",
        "G1 X{a}.125 Y{b}.5 Z{a}.25 E{b}.0625 F{a} A{b} B{a} C{b}",
        "M117 printing layer {a} of {b} please wait",
        # '/' and '*' are ordinary characters of a command's text
        "M117 Layer {a}/{b}", "M23 /gcodes/part{a}.g", "M117 {a}% *done* {b}",
        # layer changes with recurring heights (objects printed one after the other)
        "G1 Z0.{c}", "G1 Z0.{c} F300"]


def strip_comment(line):
    """Independent comment stripper: ';' to end of line, '( ... )' inline."""
    out, depth, i = [], 0, 0
    while i < len(line):
        ch = line[i]
        if depth == 0 and ch == ";":
            break
        if ch == "(" and depth == 0 and ")" in line[i:]:
            depth = 1
        elif ch == ")" and depth == 1:
            depth = 0
        elif depth == 0:
            out.append(ch)
        i += 1
    return "".join(out).strip()


def render_job(job):
    lines = []
    for item in job:
        k = item["k"]
        if k == "blank":
            lines.append(item["text"])
            continue
        if k == "comment":
            lines.append("; " + item["text"])
            continue
        cmd = CMDS[item["cmd"] % len(CMDS)].format(a=item["a"], b=item["b"], c=item["a"] % 4)
        if item.get("inline"):
            parts = cmd.split(" ", 1)
            if item.get("indent") and len(item["inline"]) > 1:
                # CNC style: the line opens with the parenthesised comment
                cmd = "(" + item["inline"] + ") " + cmd
            else:
                cmd = parts[0] + " (" + item["inline"] + ")" + (" " + parts[1] if len(parts) > 1 else "")
        if item.get("trail") is not None:
            cmd = cmd + " ; " + item["trail"]
        lines.append(("  " if item.get("indent") else "") + cmd)
    return lines


def run_jobs(cases, budget=10.0):
    """Run several senders AT THE SAME TIME in this process, each against its
    own firmware simulator; returns one result tuple per case."""
    import threading
    from vf.firmware import FakeSerial
    from gscrib.printrun import device as devmod
    from unittest import mock
    results = [None] * len(cases)
    start = threading.Barrier(len(cases))
    lock = threading.Lock()

    def worker(i):
        results[i] = run_job(cases[i], budget, _patched=True, _barrier=start, _lock=lock)
    with mock.patch.object(devmod.serial, "Serial", FakeSerial), \
            mock.patch.object(devmod.Device, "_disable_ttyhup", lambda self: None):
        ths = [threading.Thread(target=worker, args=(i,), daemon=True) for i in range(len(cases))]
        for t in ths:
            t.start()
        for t in ths:
            t.join(budget + 30)
    if any(r is None for r in results):
        raise HarnessError("a concurrent sender did not finish")
    for r in results:
        if isinstance(r, BaseException):
            raise r
    return results


def run_job(case, budget=8.0, _patched=False, _barrier=None, _lock=None):
    try:
        return _run_job(case, budget, _patched, _barrier, _lock)
    except BaseException as e:
        if _patched:
            return e
        raise


def _run_job(case, budget, _patched, _barrier, _lock):
    import contextlib
    from gscrib.printrun import printcore, gcoder
    from vf.firmware import FakeSerial
    lat = case["lat"] or [0]

    def new_fw(corrupt):
        f = Firmware(greeting=case["greeting"], dialect=case["dialect"],
                     corrupt=set(corrupt), latency=lambda i: lat[i % len(lat)])
        # (only with a device that answers without delay: that is the schedule meant)
        # (and with at most one corrupted transmission: resend storms under
        # this schedule take tens of seconds without adding anything)
        f.sync_reply = bool(case.get("sync_reply")) and not any(lat) and len(corrupt) <= 1
        return f
    fw = new_fw(case["corrupt"])
    errors = []
    ctxmgr = contextlib.nullcontext() if _patched else patched_serial(fw)

    def connect(p, fw):
        if _patched:
            with _lock:          # FakeSerial picks its firmware at construction
                FakeSerial.firmware = fw
                p.connect("/dev/ttyVERIF", 115200)
        else:
            FakeSerial.firmware = fw
            p.connect("/dev/ttyVERIF", 115200)
        t0 = time.time()
        while not p.online and time.time() - t0 < 10:
            time.sleep(0.002)
        if not p.online:
            raise HarnessError("printcore did not come online against the simulator")
        while fw.pending() and time.time() - t0 < 10:
            time.sleep(0.002)

    def stream(p, fw, job, barrier=None, append=None):
        lines = render_job(job)
        g = gcoder.GCode(lines)
        expected = [strip_comment(l) for l in lines]
        expected = [e for e in expected if e]
        if barrier is not None:
            try:
                barrier.wait(10)
            except Exception:
                pass
        started = p.startprint(g)
        if not started:
            raise HarnessError("startprint refused")
        for cmd in (append or ()):
            # commands handed to send() while the job is running are appended to it
            p.send(cmd)
        if case.get("prio"):
            # priority commands (send_now) go out unnumbered between job lines:
            # they are no part of the job and must not disturb it.  They are
            # issued once the first job line is on the wire: until the print thread
            # has stopped the idle sender thread (up to 0.1 s after startprint())
            # that thread can take a command without waiting for acknowledgements
            # (upstream Printrun behaviour, outside C15's quantifier; DESIGN 7.5)
            t1 = time.time()
            while not fw.transmissions and time.time() - t1 < 0.4:
                time.sleep(0.002)
            for cmd in case["prio"]:
                p.send_now(cmd)
        t0 = time.time()
        last_progress = (-1, -1, -1)
        last_change = time.time()
        status = "ok"
        while True:
            with fw.lock:
                pend = len(fw.out)
                # replies still being read by the sender are activity too
                prog = (len(fw.rx), len(fw.accepted), pend)
            if prog != last_progress:
                last_progress = prog
                last_change = time.time()
            done = (not p.printing) and pend == 0
            if done and time.time() - last_change > 0.05:
                break
            if time.time() - last_change > 3.0:
                status = "stalled"
                break
            if time.time() - t0 > budget:
                status = "budget"
                break
            time.sleep(0.003)
        return expected, status, p.printing

    with ctxmgr:
        p = printcore()
        p.loud = False
        p.errorcb = errors.append
        if case.get("tcp_streaming"):
            # the streaming switch is meant for links with flow control; on a
            # serial link the sender still has to wait for every acknowledgement
            p.tcp_streaming_mode = True
        try:
            connect(p, fw)
            app = list(case.get("append") or ())
            if len([l for l in render_job(case["job"]) if strip_comment(l)]) < 4 or not any(lat[:2]):
                app = []          # too short a job: it could be over before send() is called
            expected, status, printing_after = stream(p, fw, case["job"], _barrier, app)
            expected = expected + app
            if app:
                fw.appended = True
            sec = case.get("second")
            if sec and status == "ok" and not _patched:
                # the SAME sender object streams a second job: on the same
                # connection, or after a disconnect and a connect to a freshly
                # booted device.  The first job is judged here, the second one
                # by the caller (through fw.case_view).
                try:
                    _judge(case, (fw, expected, status, printing_after, errors), set())
                except Violation as v:
                    raise Violation("first job: " + str(v))
                try:
                    if sec["reconnect"]:
                        p.disconnect()
                        fw = new_fw(sec["corrupt"])
                        connect(p, fw)
                    else:
                        with fw.lock:
                            del fw.rx[:], fw.accepted[:], fw.accepted_job[:], fw.accepted_numbers[:]
                            del fw.transmissions[:], fw.resend_requests[:], fw.wire_errors[:]
                            fw.tx_index = 0
                            fw.corrupt = set(sec["corrupt"])
                    expected, status, printing_after = stream(p, fw, sec["job"])
                except HarnessError as e:
                    # the first job went through on this very sender: a sender
                    # that cannot reconnect or refuses the next job is at fault
                    raise Violation(f"second job on the same sender "
                                    f"({'after reconnecting' if sec['reconnect'] else 'same connection'}): {e}")
                fw.case_view = dict(case, job=sec["job"], corrupt=sec["corrupt"])
                fw.second = "reconnected" if sec["reconnect"] else "same_connection"
        finally:
            try:
                p.disconnect()
            except Exception:
                pass
    return fw, expected, status, printing_after, errors


LAST = {}
KNOWN_ID = "stray-ok-after-resend-ends-job-early"


def in_known_class(case):
    """The recorded finding: in the Marlin dialects every resend request is
    followed by an extra 'ok', which leaves the sender one acknowledgement
    ahead; a transmission that is corrupted when no further new line remains
    to be sent is then never retransmitted (the print thread has already
    finished).  Class = Marlin dialect, >= 2 resend requests, and the only
    damage is a lost *tail* of the job (no reordering, duplication or wire
    error)."""
    fw, expected = LAST.get("fw"), LAST.get("expected")
    if fw is None or case["dialect"] not in ("marlin", "marlin_nospace"):
        return False
    if LAST.get("status") == "budget":
        return False     # the finding ends the job early; a sender that never ends is another defect
    if fw.wire_errors or len(fw.resend_requests) < 2:
        return False
    acc = list(fw.accepted_job)
    if not (len(acc) < len(expected) and acc == expected[:len(acc)]):
        return False
    # only the lines that were still unacknowledged when the sender ran out of
    # new lines can be lost this way: at most one per stray ok, and the first
    # lost line's last transmission must have been a corrupted one
    lost = len(expected) - len(acc)
    if lost > len(fw.resend_requests):
        return False
    k = len(acc)
    tx_k = [t for t in fw.transmissions if t[1] == k]
    return bool(tx_k) and bool(tx_k[-1][3])


def check(case, cl=None):
    cl = set() if cl is None else cl
    comp = case.get("companion")
    if comp:
        # a second sender object streams another job at the same time
        c2 = {"job": comp["job"], "corrupt": comp["corrupt"], "lat": comp["lat"],
              "dialect": case["dialect"], "greeting": case["greeting"]}
        r1, r2 = run_jobs([case, c2])
        cl.add("two_senders_at_once")
        out = judge(case, r1, cl)
        out2 = judge(c2, r2, set(), label="companion sender: ")
        return "inconclusive" if "inconclusive" in (out, out2) else "ok"
    return judge(case, run_job(case), cl)


def judge(case, result, cl, label=""):
    try:
        return _judge(case, result, cl)
    except Violation as v:
        if label:
            raise Violation(label + str(v))
        raise


def _judge(case, result, cl):
    fw, expected, status, printing_after, errors = result
    LAST["fw"], LAST["expected"], LAST["status"] = fw, expected, status
    case = getattr(fw, "case_view", case)
    if getattr(fw, "appended", False):
        cl.add("commands_appended_with_send_while_printing")
    if getattr(fw, "sync_reply", False):
        cl.add("reply_handled_before_write_returns")
    if case.get("prio"):
        cl.add("priority_commands_during_the_job")
    if case.get("tcp_streaming"):
        cl.add("tcp_streaming_mode_on_a_serial_link")
    if getattr(fw, "second", None):
        cl.add("second_job_on_same_sender:" + fw.second)
    job_desc = f"job={render_job(case['job'])!r} corrupt={sorted(case['corrupt'])} " \
               f"lat={case['lat']} dialect={case['dialect']}"
    if status == "budget":
        # A time budget alone decides nothing.  What does decide is an oracle
        # over the history: once the last corrupted transmission is behind, a
        # resend request must be answered with the requested line, which the
        # firmware then accepts - so a long run of numbered transmissions none
        # of which is accepted is a sender that never restarts from the
        # requested line (livelock), however long one waits.
        last_bad = max([t[0] for t in fw.transmissions if t[3]], default=-1)
        tail = [t for t in fw.transmissions if t[0] > last_bad]
        run = 0
        for t in reversed(tail):
            if t[5] == "ok":
                break
            run += 1
        if run >= LIVELOCK_RUN:
            raise Violation(f"livelock: the last {run} numbered transmissions (all after the last "
                            f"corrupted one, #{last_bad}) were refused by the firmware - resend "
                            f"requests {fw.resend_requests[-3:]!r} are not answered with the requested "
                            f"line; last received {fw.rx[-4:]!r}; accepted {len(fw.accepted_job)} of "
                            f"{len(expected)} lines; {job_desc}")
        return "inconclusive"
    # ---- wire format ------------------------------------------------------
    if fw.wire_errors:
        raise Violation(f"wire format: {fw.wire_errors[:3]}; {job_desc}")
    for line in fw.rx:
        if line.startswith("N"):
            m = re.match(r"^N(-?\d+) (.+)\*(\d+)$", line)
            if not m:
                raise Violation(f"transmission {line!r} is not N<k> <command>*<checksum>")
            if xor_checksum(f"N{m.group(1)} {m.group(2)}") != int(m.group(3)):
                raise Violation(f"wrong checksum in {line!r}")
    # numbering: first transmission of each new line carries the next number
    seen = -1
    for (idx, n, body, corrupted, good, _st) in fw.transmissions:
        if n > seen + 1:
            raise Violation(f"line numbers skip from {seen} to {n} "
                            f"(transmission #{idx} N{n} {body!r}); {job_desc}")
        if n == seen + 1:
            k = n
            if k >= len(expected) or body != expected[k]:
                raise Violation(f"transmission #{idx} sends N{n} {body!r}, job line {k} is "
                                f"{expected[k] if k < len(expected) else None!r}; {job_desc}")
            seen = n
        else:
            if n < 0 or n >= len(expected) or body != expected[n]:
                raise Violation(f"retransmission #{idx} N{n} {body!r} does not repeat job "
                                f"line {n}; {job_desc}")
    # resend: after a request for r, line r is retransmitted before any line
    # the firmware has not yet accepted
    for (at, r) in fw.resend_requests:
        later = [t for t in fw.transmissions if t[0] > at]
        # lines already in flight when the request was read are tolerated up to
        # the first transmission with number <= r
        hit = next((t for t in later if t[1] <= r), None)
        if hit is None:
            # a request for the number after the last job line (the firmware's
            # answer to a duplicate of an accepted line) has nothing to serve
            if r < len(expected) and (status == "stalled"
                                      or len(fw.accepted_numbers) < len(expected)):
                raise Violation(f"resend of line {r} was requested after transmission #{at} "
                                f"but never served; {job_desc}")
        elif hit[1] != r:
            pass     # an older request is being served first
    # ---- end state ----------------------------------------------------------
    acc = list(fw.accepted_job)
    if status == "stalled":
        raise Violation(f"transfer stalled (no activity for 3 s, printing={printing_after}): "
                        f"accepted {len(acc)} of {len(expected)} lines; last received "
                        f"{fw.rx[-3:]!r}; {job_desc}")
    if acc != expected:
        k = next((i for i in range(min(len(acc), len(expected))) if acc[i] != expected[i]),
                 min(len(acc), len(expected)))
        raise Violation(f"firmware accepted {len(acc)} lines, job has {len(expected)}; first "
                        f"difference at #{k}: accepted {acc[k:k + 2]!r} expected "
                        f"{expected[k:k + 2]!r}; {job_desc}")
    if printing_after:
        raise Violation(f"printing still true after the job finished; {job_desc}")
    if case["corrupt"] and any(t[3] for t in fw.transmissions):
        cl.add("NT")
        cl.add("corrupted")
        idxs = sorted(i for i in case["corrupt"] if i < len(fw.transmissions))
        if any(b - a == 1 for a, b in zip(idxs, idxs[1:])):
            cl.add("consecutive_corruption")
        # corrupted resend: a corrupted transmission whose number was sent before
        firsts = set()
        for (idx, n, body, corrupted, good, _st) in fw.transmissions:
            if corrupted and n in firsts:
                cl.add("corrupted_resend")
            firsts.add(n)
        if any(t[3] and t[1] == len(expected) - 1 for t in fw.transmissions):
            cl.add("corruption_on_last_line")
    if any(case["lat"]):
        cl.add("latency>0")
    if len(fw.resend_requests) > 5 * max(1, len(expected)):
        # sender and firmware ping-pong duplicates/resend requests for a while;
        # allowed by the property as long as the end state is right
        cl.add("resend_storm")
    cl.add("dialect:" + case["dialect"])
    return "ok"


def replay(case):
    r = None
    for _ in range(3):      # thread timing: give a failure three chances to show
        r = check(case)
    return r


def job_strategy():
    from hypothesis import strategies as st
    n = st.integers(0, 250)
    word = st.sampled_from(["layer 1", "x", "perimeter", "G1 X5", "tool (a)", ""])
    item = st.one_of(
        st.fixed_dictionaries({"k": st.just("cmd"), "cmd": st.integers(0, 19), "a": n, "b": n,
                               "inline": st.one_of(st.none(), st.none(), st.sampled_from(["note", "G1 X9", "a b"])),
                               "trail": st.one_of(st.none(), st.none(), word),
                               "indent": st.booleans()}),
        st.fixed_dictionaries({"k": st.just("cmd"), "cmd": st.integers(0, 19), "a": n, "b": n}),
        st.fixed_dictionaries({"k": st.just("comment"), "text": word}),
        st.fixed_dictionaries({"k": st.just("blank"), "text": st.sampled_from(["", "   "])}),
    )
    free = st.lists(item, min_size=1, max_size=25)
    # a sliced job: layers of a few moves each, with heights that come back
    # (objects printed one after the other: 0.2, 0.4, 0.2, 0.4 ...)
    layer = st.tuples(st.sampled_from([0, 1, 2, 3]), st.lists(
        st.fixed_dictionaries({"k": st.just("cmd"), "cmd": st.sampled_from([0, 2, 8, 13]),
                               "a": n, "b": n}), min_size=1, max_size=3)).map(
        lambda t: [{"k": "cmd", "cmd": 18, "a": t[0], "b": 0}] + t[1])
    sliced = st.lists(layer, min_size=3, max_size=6).map(lambda ls: [i for l in ls for i in l])
    from vf.hist import weighted
    return weighted((3, free), (1, sliced))


def strategy():
    from hypothesis import strategies as st
    return st.fixed_dictionaries({
        "job": job_strategy(),
        "corrupt": st.one_of(st.just([]), st.lists(st.integers(0, 40), max_size=6, unique=True),
                             st.lists(st.integers(0, 12), max_size=5, unique=True)).map(sorted),
        "lat": st.one_of(st.lists(st.integers(0, 6), min_size=1, max_size=7), st.just([0])),
        "dialect": st.sampled_from(["marlin", "marlin", "marlin_nospace", "teacup"]),
        "greeting": st.sampled_from(["start", None]),
        "sync_reply": st.sampled_from([False, False, True]),
        "prio": st.sampled_from([None, None, None, ["M105"], ["M105", "M114"]]),
        "tcp_streaming": st.sampled_from([False, False, False, True]),
        "append": st.sampled_from([None, None, None, ["M104 S0", "M140 S0", "M84"], ["M400"]]),
        "second": st.one_of(st.none(), st.none(), st.none(), st.fixed_dictionaries({
            "job": job_strategy(), "reconnect": st.booleans(),
            "corrupt": st.lists(st.integers(0, 12), max_size=4, unique=True).map(sorted)})),
        "companion": st.one_of(st.none(), st.none(), st.none(), st.fixed_dictionaries({
            "job": job_strategy(),
            "corrupt": st.lists(st.integers(0, 12), max_size=4, unique=True).map(sorted),
            "lat": st.lists(st.integers(0, 6), min_size=1, max_size=4)}))}).map(_sliced_gets_appends)


def _sliced_gets_appends(c):
    """Sliced jobs (recurring layer heights) are the ones where commands
    appended with send() can land in the wrong layer: always append there,
    under a latency that keeps the job running while send() is called."""
    if c["job"] and c["job"][0].get("cmd") == 18 and len(c["job"]) >= 6:
        c = dict(c, append=c.get("append") or ["M104 S0", "M140 S0", "M84"])
        if not any(c["lat"][:2]):
            c["lat"] = [2, 1] + list(c["lat"])
    return c


FIXED_JOB = [{"k": "cmd", "cmd": i, "a": i, "b": i + 1} for i in range(6)]
LIVELOCK_RUN = 60
# a priority command queued while job line 0 is corrupted twice in a row: the
# extra "ok" after Marlin's resend request lets it out between the two resends
PRIO_PLACEMENTS = [((0, 1), [3]), ((0, 1), [2, 0, 5]), ((0, 1, 2), [3]), ((1, 2), [3]),
                   ((0, 1), [1]), ((2, 3), [2, 0, 5])]


def run_shard(ctx):
    n = 60 if ctx.tier == "quick" else 1500

    def body(case):
        cl = set()
        try:
            r = check(case, cl)
        except Violation:
            if in_known_class(case):
                ctx.excluded(KNOWN_ID)     # recorded finding: keep searching
                return
            raise
        if r == "inconclusive":
            ctx.inconclusive += 1
            return
        ctx.case(case, nontrivial="NT" in cl, classes=sorted(cl), steps=len(case["job"]))

    run_hypothesis(ctx, strategy(), body, n)
    # exhaustive single/double fault placement on a fixed job
    import itertools
    maxtx = 8 if ctx.tier == "quick" else 14
    combos = [(i,) for i in range(maxtx)]
    if ctx.tier == "thorough":
        combos += list(itertools.combinations(range(maxtx), 2))
    else:
        combos += [(i, i + 1) for i in range(maxtx - 1)]
    k = 0
    placements = [(d, c, lat, None) for d in ("marlin", "teacup") for c in combos
                  for lat in ([0], [2, 0, 5])]
    placements += [("marlin", c, lat, prio) for (c, lat) in PRIO_PLACEMENTS
                   for prio in (["M105"], ["M105", "M114"])]
    for (dialect, c, lat, prio) in placements:
        k += 1
        if k % ctx.nshards != ctx.shard:
            continue
        case = {"job": FIXED_JOB, "corrupt": list(c), "lat": lat, "dialect": dialect,
                "greeting": "start"}
        if prio:
            case["prio"] = prio
        cl = set()
        try:
            r = check(case, cl)
        except Violation as v:
            if in_known_class(case):
                ctx.excluded(KNOWN_ID)
                continue
            ctx.violation(case, str(v), "fault_placement")
            continue
        if r == "inconclusive":
            ctx.inconclusive += 1
            continue
        ctx.case(case, nontrivial="NT" in cl,
                 classes=["fault_placement"] + sorted(cl), steps=6)
