"""C18 — device reports are parsed into the readings the caller asks for.

Histories of 1..10 report lines of the four families (Marlin position, Marlin
temperature, Grbl status, probe result), with and without a leading 'ok',
with generated signed decimals and field orders, delivered through the
receive callback the writer registers on its printcore.  Generator-side truth:
per report the dict letter -> first value in that report; afterwards
get_parameter(letter) == latest truth for every letter mentioned so far.
"""

from vf.runner import Violation, HarnessError, run_hypothesis

ID = "C18"
LEVEL = "exploration"
SHARDS = {"quick": 8, "thorough": 16}
RULE = ("cases = list of 1..10 structured reports: Marlin 'X: Y: Z: E: Count "
        "X: Y: Z:' (axis order shuffled, optional Count block), Marlin "
        "temperatures 'T:cur /tgt B:cur /tgt @:pwm B@:pwm' (+T0:/T1:, "
        "optional), each with or without leading 'ok '; Grbl '<State|MPos|WPos:"
        "x,y,z[,a]|FS:f,s or F:f|WCO:..|Bf:..|Ov:..>' with fields shuffled; "
        "'[PRB:x,y,z[,a]:0|1]'; benign lines ('ok', 'echo:busy: processing', "
        "'wait'), an earlier report repeated byte for byte; values = signed decimals in several spellings (-0.5, 12, "
        "3.250, 0, 100000.125); non-trivial = a later report omits a letter an "
        "earlier one set, or a report repeats a letter (Count X:); distinct by "
        "SHA-1")
ASSUMPTIONS = [
    "truth rules (from the property): single-letter keys give that letter; "
    "MPos/WPos/PRB give X,Y,Z,(A,B,C) by position; FS inside a '<' status "
    "gives F,S; other keys are ignored; the first occurrence of a letter in a "
    "report wins; letters a report does not mention keep their reading",
    "a report uses one letter case per letter",
    "reports are delivered through the recvcb callback the writer installs "
    "on its printcore (no device I/O); a smaller number of histories is also "
    "sent by a simulated device over the serial double and over loopback TCP "
    "as the reply to a statement (over TCP also cut into several packets: the "
    "newline alone, halves, 3-byte pieces), and read after write() has returned",
]
TECHNIQUE = ("property-based testing (Hypothesis report grammars and "
             "histories) against generator-side truth + atheris field fuzzing")
LEVEL_TEXT = ("Generated report histories with a structural truth computed on "
              "the generator side; every reading compared after every report. "
              "Exploration with class counters.")

AXES6 = ["X", "Y", "Z", "A", "B", "C"]


def render_value(v):
    """v = [int_numerator, decimals, style] -> text, float"""
    n, dec, style = v
    x = n / (10 ** dec)
    if style == 0:
        txt = f"{x:.{dec}f}"
    elif style == 1:
        txt = repr(float(x))
        if "e" in txt:
            txt = f"{x:.{dec}f}"
    else:
        txt = f"{x:.{max(dec, 2)}f}"
    return txt, float(txt)


def render(rep):
    """-> (line text, truth dict for this report)"""
    fam = rep["fam"]
    truth = {}

    def put(letter, val):
        truth.setdefault(letter.upper(), val)

    if fam == "pos":
        parts = []
        for ax, v in rep["axes"]:
            t, f = render_value(v)
            parts.append(f"{ax}:{t}")
            put(ax, f)
        line = " ".join(parts)
        if rep.get("count"):
            cparts = []
            for ax, v in rep["count"]:
                t, f = render_value(v)
                cparts.append(f"{ax}:{t}")
                put(ax, f)
            line += " Count " + " ".join(cparts)
    elif fam == "temp":
        parts = []
        for key, cur, tgt in rep["sensors"]:
            tc, fc = render_value(cur)
            tt, _ = render_value(tgt)
            parts.append(f"{key}:{tc} /{tt}")
            if len(key) == 1:
                put(key, fc)
        for key, pwm in rep.get("pwm", []):
            parts.append(f"{key}:{pwm}")
        line = " ".join(parts)
    elif fam == "grbl":
        fields = []
        for f in rep["fields"]:
            k = f["k"]
            if k in ("MPos", "WPos"):
                vals = [render_value(v) for v in f["v"]]
                fields.append((k, f"{k}:" + ",".join(t for t, _ in vals)))
            elif k == "FS":
                vals = [render_value(v) for v in f["v"]]
                fields.append((k, "FS:" + ",".join(t for t, _ in vals)))
            elif k == "F":
                t, fv = render_value(f["v"][0])
                fields.append((k, f"F:{t}"))
            else:
                vals = [render_value(v) for v in f["v"]]
                fields.append((k, f"{k}:" + ",".join(t for t, _ in vals)))
        for (k, _), f in zip(fields, rep["fields"]):
            vals = [render_value(v)[1] for v in f["v"]]
            if k in ("MPos", "WPos"):
                for ax, val in zip(AXES6, vals):
                    put(ax, val)
            elif k == "FS":
                put("F", vals[0])
                put("S", vals[1])
            elif k == "F":
                put("F", vals[0])
        line = "<" + "|".join([rep["state"]] + [t for _, t in fields]) + ">"
    elif fam == "prb":
        vals = [render_value(v) for v in rep["v"]]
        line = "[PRB:" + ",".join(t for t, _ in vals) + f":{rep['ok']}]"
        for ax, (_, f) in zip(AXES6, vals):
            put(ax, f)
    elif fam == "noise":
        line = rep["text"]
    else:
        raise ValueError(fam)
    if rep.get("okprefix"):
        line = "ok " + line
    return line + rep.get("eol", "\n"), truth


def value_strategy():
    from hypothesis import strategies as st
    return st.tuples(st.one_of(st.integers(-10 ** 8, 10 ** 8), st.integers(-3000, 3000),
                               st.just(0), st.integers(-3, 3)),
                     st.integers(0, 4), st.integers(0, 2)).map(list)


def report_strategy(only=None):
    from hypothesis import strategies as st
    v = value_strategy()
    pos = st.fixed_dictionaries({
        "fam": st.just("pos"),
        "axes": st.permutations(["X", "Y", "Z", "E"]).flatmap(
            lambda p: st.tuples(*[st.tuples(st.just(a), v) for a in p])).map(
            lambda t: [list(x) for x in t]),
        "count": st.one_of(st.none(), st.tuples(*[st.tuples(st.just(a), v) for a in "XYZ"]).map(
            lambda t: [list(x) for x in t])),
        "okprefix": st.booleans()})
    sensor = st.sampled_from(["T", "B", "C", "T0", "T1"])
    temp = st.fixed_dictionaries({
        "fam": st.just("temp"),
        "sensors": st.lists(st.tuples(sensor, v, v).map(list), min_size=1, max_size=4,
                            unique_by=lambda t: t[0]),
        "pwm": st.lists(st.tuples(st.sampled_from(["@", "B@"]), st.integers(0, 127)).map(list),
                        max_size=2, unique_by=lambda t: t[0]),
        "okprefix": st.booleans()})
    gf = st.one_of(
        st.tuples(st.sampled_from(["MPos", "WPos"]), st.lists(v, min_size=3, max_size=4)).map(
            lambda t: {"k": t[0], "v": t[1]}),
        st.lists(v, min_size=2, max_size=2).map(lambda l: {"k": "FS", "v": l}),
        st.lists(v, min_size=1, max_size=1).map(lambda l: {"k": "F", "v": l}),
        st.lists(v, min_size=3, max_size=3).map(lambda l: {"k": "WCO", "v": l}),
        st.lists(v, min_size=2, max_size=2).map(lambda l: {"k": "Bf", "v": l}),
        st.lists(v, min_size=3, max_size=3).map(lambda l: {"k": "Ov", "v": l}),
    )
    grbl = st.fixed_dictionaries({
        "fam": st.just("grbl"), "state": st.sampled_from(["Idle", "Run", "Hold:0", "Alarm", "Jog"]),
        "fields": st.lists(gf, min_size=1, max_size=5, unique_by=lambda f: (
            "pos" if f["k"] in ("MPos", "WPos") else "feed" if f["k"] in ("FS", "F") else f["k"]))})
    prb = st.fixed_dictionaries({"fam": st.just("prb"), "v": st.lists(v, min_size=3, max_size=4),
                                 "ok": st.integers(0, 1)})
    noise = st.sampled_from(["ok", "echo:busy: processing", "wait", "ok\r",
                             "echo:Unknown command: \"M999\"", "start"]).map(
        lambda t: {"fam": "noise", "text": t})
    repeat = st.integers(0, 9).map(lambda i: {"fam": "repeat", "i": i})
    if only == "temp":
        return temp
    return st.one_of(pos, pos, temp, temp, grbl, grbl, prb, noise, repeat, repeat,
                     st.just({"fam": "other_writer"}))


def make_callback():
    from gscrib.writers import SerialWriter
    w = SerialWriter("/dev/null-verif", 115200)
    dev = w._writer_delegate._create_device()
    # (a writer that installs its receive callback later than at device
    # creation is still driven through its message handler here; whether
    # early reports are heard is decided by the transport sub-run)
    return w, dev.recvcb or w._writer_delegate._on_device_message


def run_case(case, cl=None):
    cl = set() if cl is None else cl
    w, cb = make_callback()
    latest = {}
    resolved = []
    w_other, cb_other = None, None
    for i, rep in enumerate(case["reports"]):
        if rep["fam"] == "other_writer":
            # another writer object in the same process gets its own reports
            if cb_other is None:
                w_other, cb_other = make_callback()
            cb_other(f"X:{900 + i}.5 Y:-{i}.25 Z:77 E:1 T:300 B:99 F:12345 S:1\n")
            cb_other(f"<Run|MPos:{700 + i},701,702|FS:4321,9>\n")
            cl.add("other_writer_got_reports")
            continue
        if rep["fam"] == "repeat":
            # the device sends an earlier report again, byte for byte
            if not resolved:
                continue
            rep = resolved[rep["i"] % len(resolved)]
            cl.add("identical_report_repeated")
        resolved.append(rep)
        line, truth = render(rep)
        if any(k in latest for k in set(latest) - set(truth)) and truth:
            cl.add("later_report_omits_letter")
        if rep["fam"] == "pos" and rep.get("count"):
            cl.add("repeated_letter")
        if rep.get("okprefix"):
            cl.add("ok_prefixed")
        cl.add("fam:" + rep["fam"])
        cb(line)
        err = w._writer_delegate._device_error
        if err is not None:
            raise Violation(f"report #{i} {line!r} stored a device error: {err!r}")
        latest.update(truth)
        if case.get("late") and i < len(case["reports"]) - 1:
            continue        # readings are only asked for after the last report
        for letter in "XYZEABCFSTPR":
            exp = latest.get(letter)
            for name in (letter, letter.lower()):
                got = w.get_parameter(name)
                if exp is None:
                    if got is not None:
                        raise Violation(f"after report #{i} {line!r}: get_parameter({name!r}) "
                                        f"= {got!r} but no report mentioned {letter}")
                elif got != exp:
                    raise Violation(f"after report #{i} {line!r}: get_parameter({name!r}) = "
                                    f"{got!r}, expected {exp!r} (first value for {letter} in "
                                    f"the latest report that mentions it)")
    return cl


def run_case_transport(case, cl=None):
    """The same report history, but sent by a simulated device over a real
    connection (serial double or loopback TCP) as the reply to a statement:
    after write() has returned, the readings of that reply must be there."""
    import time
    from vf.firmware import Firmware, TcpFront, patched_serial, wait_handshake_drained
    from vf.props.c16 import run_with_timeout, _quiet
    from gscrib.writers import SerialWriter, SocketWriter
    cl = set() if cl is None else cl
    _quiet()
    items, resolved = [], []
    for i, rep in enumerate(case["reports"]):
        if rep["fam"] in ("other_writer", "noise"):
            continue
        if rep["fam"] == "repeat":
            if not resolved:
                continue
            rep = resolved[rep["i"] % len(resolved)]
        resolved.append(rep)
        line, truth = render(rep)
        items.append((f"M400 P{i}", line.rstrip("\n"), truth))
    if not items:
        return cl
    # optionally the device reports by itself while booting (temperature
    # auto-report left on): the first lines of a new connection count as well
    greeting, boot_truth = "start", {}
    if case.get("boot") is not None:
        bline, boot_truth = render(dict(case["boot"], okprefix=False))
        greeting = [bline.rstrip("\n"), "start"] if case.get("boot_first", True) \
            else ["start", bline.rstrip("\n")]
        cl.add("report_while_booting")
    fw = Firmware(greeting=greeting,
                  behaviours={txt: {"report": line} for txt, line, _ in items})
    if case.get("burst") and case["transport"] == "serial":
        # report lines arrive over the serial line in two bursts 80 ms apart
        # (well inside the port's read timeout): they are still one line each
        fw.burst_gap = 0.08
        cl.add("report_lines_in_two_bursts")
    latest = dict(boot_truth)

    def session(make):
        w = make()
        w.set_timeout(8.0)
        try:
            r = run_with_timeout(w.connect, 12.0)
            if r[0] != "ok":
                raise HarnessError(f"connect() against the simulator: {r!r}")
            wait_handshake_drained(fw)       # let the handshake replies drain
            for letter, exp in boot_truth.items():
                got = w.get_parameter(letter)
                if got != exp:
                    raise Violation(f"{case['transport']}: the device sent {greeting!r} while "
                                    f"the connection came up, but get_parameter({letter!r}) = "
                                    f"{got!r} (expected {exp!r})")
            for txt, line, truth in items:
                r = run_with_timeout(lambda: w.write((txt + "\n").encode()), 8.0)
                if r[0] == "hang":
                    raise Violation(f"write({txt!r}) did not return; device reply {line!r}")
                if r[0] == "exc":
                    raise Violation(f"write({txt!r}) raised {r[1]!r}; device reply {line!r}")
                latest.update(truth)
                for letter in "XYZEABCFSTPR":
                    exp, got = latest.get(letter), w.get_parameter(letter)
                    if exp is None:
                        continue
                    if got != exp:
                        raise Violation(
                            f"{case['transport']}: after write({txt!r}) returned, "
                            f"get_parameter({letter!r}) = {got!r}, the device had replied "
                            f"{line!r} (expected {exp!r})")
        finally:
            run_with_timeout(lambda: w.disconnect(False), 6.0)

    if case["transport"] == "serial":
        with patched_serial(fw):
            session(lambda: SerialWriter("/dev/ttyVERIF", 115200))
    else:
        frag = case.get("frag")
        split = None
        if frag == "lf_alone":        # the newline travels in a packet of its own
            split = lambda b: [b[:-1], b[-1:]]
        elif frag == "halves":
            split = lambda b: [b[:len(b) // 2], b[len(b) // 2:]]
        elif frag == "bytes3":
            split = lambda b: [b[i:i + 3] for i in range(0, len(b), 3)]
        if frag:
            cl.add("fragmented:" + frag)
        front = TcpFront(fw, split)
        try:
            session(lambda: SocketWriter("127.0.0.1", front.port))
        finally:
            front.close()
    cl.add("over_" + case["transport"])
    return cl


def replay(case):
    if case.get("transport"):
        run_case_transport(case)
    else:
        run_case(case)


NT = {"later_report_omits_letter", "repeated_letter"}


def run_shard(ctx):
    from hypothesis import strategies as st
    n = 500 if ctx.tier == "quick" else 25000

    def body(case):
        cl = run_case(case, set())
        ctx.case(case, nontrivial=bool(cl & NT), classes=sorted(cl), steps=len(case["reports"]))

    run_hypothesis(ctx, st.fixed_dictionaries(
        {"reports": st.lists(report_strategy(), min_size=1, max_size=10)}), body, n)

    # long histories (70..110 reports) read only once, after the last report:
    # nothing may be dropped or parsed out of order on the way
    def body_late(case):
        cl = run_case(case, set())
        cl.add("read_only_after_the_last_report")
        ctx.case(case, nontrivial=True, classes=sorted(cl), steps=len(case["reports"]))

    run_hypothesis(ctx, st.fixed_dictionaries(
        {"late": st.just(True),
         "reports": st.lists(report_strategy(), min_size=70, max_size=110)}), body_late,
        25 if ctx.tier == "quick" else 800, sub="late")

    # the same histories sent by a simulated device over a real connection
    def body_t(case):
        cl = run_case_transport(case, set())
        ctx.case(case, nontrivial=len(case["reports"]) >= 2, classes=sorted(cl),
                 steps=len(case["reports"]))

    run_hypothesis(ctx, st.fixed_dictionaries(
        {"transport": st.sampled_from(["serial", "socket", "socket"]),
         "frag": st.sampled_from([None, "lf_alone", "halves", "bytes3"]),
         "boot": st.one_of(st.none(), report_strategy(only="temp")),
         "boot_first": st.booleans(),
         "burst": st.booleans(),
         "reports": st.lists(report_strategy(), min_size=1, max_size=6)}), body_t,
        5 if ctx.tier == "quick" else 120, sub="transport")
