"""C10 — interpolated paths follow the requested curve and end on target.

One tracer request per case, built to be geometrically valid from a generated
start position, distance mode, direction and resolution (optionally after a
first traced path, so that the start position carries floating-point noise).
Vertices are reconstructed from the output by the interpreter and judged
against the harness's own closed form of the requested curve.
"""

import math

from vf.runner import Violation, run_hypothesis
from vf import hist, geom

ID = "C10"
LEVEL = "exploration"
SHARDS = {"quick": 8, "thorough": 16}
RULE = ("cases = (start position set exactly with G92 or left unknown, "
        "distance mode, direction, decimal places 6..9, length/resolution "
        "ratio 2..400 (thorough: to 3000), one shape: arc/circle from (radius, "
        "start angle, sweep or full turn, dz), arc_radius from (chord, radius "
        "factor, sign), helix/spiral from (radii, angles, turns 1..8, thorough "
        "to 64 and a thin class to 600, dz), thread from (target, pitch), "
        "spline from 2..6 control points (also closed on the start or revisiting an earlier control point), polyline from 1..8 points; targets as "
        "2- or 3-tuples, optionally landing on absolute Z = 0 exactly (any "
        "shape) or X = Y = 0 exactly (spline/polyline); arc/circle centres "
        "optionally with a (meaningless) third component; optionally with a "
        "pass-through move hook registered; optionally issued "
        "after another traced path); "
        "non-trivial = start position not at the origin and >= 8 vertices "
        "(polyline: >= 2 points); distinct by SHA-1")
ASSUMPTIONS = [
    "vertices are judged against the harness's own closed form "
    "C(f) = c + (r0+(r1-r0)f)(cos,sin)(a0+S f), z0+dz f with S computed "
    "independently; each vertex must lie within the output-rounding budget of "
    "C at strictly increasing parameters ending at f=1",
    "nominal angular separation of start and target is >= 0.05 rad or exactly "
    "a full turn (requests in between are numerically ambiguous)",
    "splines: each control point within one resolution of the polyline, "
    "matched in order; polylines: vertices are the given points",
    "multi-turn requests are traced with at least 8 resolutions per turn (a "
    "coarser polyline cannot show how many turns were made)",
    "positions are kept within 1e4 of the origin (the library's own 1e-10 "
    "relative radius test makes requests far away unbuildable)",
]
TECHNIQUE = ("property-based testing (Hypothesis) of constructed-valid "
             "requests against an independent closed-form curve oracle")
LEVEL_TEXT = ("Generated requests over shapes x start positions x modes x "
              "directions x resolutions, each polyline re-read from the output "
              "and tested vertex by vertex against an independent closed form. "
              "Exploration with class counters.")


def shape_strategy(max_turns):
    from hypothesis import strategies as st
    ang = st.floats(min_value=-math.pi, max_value=math.pi, allow_nan=False)
    rad = st.floats(min_value=0.5, max_value=40.0)
    dz = st.one_of(st.just(0.0), st.floats(min_value=-20, max_value=20))
    off = st.floats(min_value=-30, max_value=30, allow_nan=False)
    nz = off.filter(lambda v: abs(v) > 0.5)
    sweep = st.floats(min_value=0.05, max_value=2 * math.pi - 0.05)
    turns = st.integers(1, max_turns)
    # targets landing on exact zeros (see hist.shape_strategy)
    land = st.sampled_from([None, None, None, None, None, "z0", "z0", "xy0"])
    cz = st.sampled_from([None, None, None, 0.0, 5.0, -2.5])
    return st.tuples(_shapes(max_turns, ang, rad, dz, off, nz, sweep, turns), land, cz).map(
        lambda t: dict(dict(t[0], land=t[1]) if t[1] and not t[0].get("closed")
                       and t[0].get("revisit") is None else t[0],
                       **({"cz": t[2]} if t[2] is not None and t[0]["shape"] in ("arc", "circle")
                          else {})))


def _shapes(max_turns, ang, rad, dz, off, nz, sweep, turns):
    from hypothesis import strategies as st
    q = st.integers(-40, 40).filter(lambda k: abs(k) >= 4).map(lambda k: k / 4.0)
    zq = st.integers(-24, 24).map(lambda k: k / 4.0)
    # control points exactly on one straight line in XY (equal dyadic steps) with
    # a Z profile that is not linear: still a 3-D curve
    straight = st.tuples(q, st.integers(-40, 40).map(lambda k: k / 4.0),
                         st.lists(zq, min_size=2, max_size=4)).map(
        lambda t: {"shape": "spline", "pts": [(t[0], t[1], z) for z in t[2]], "zgiven": True})
    return st.one_of(
        straight,
        st.fixed_dictionaries({"shape": st.just("arc"), "r": rad, "a0": ang, "sweep": sweep,
                               "dz": dz, "zgiven": st.booleans(), "full": st.sampled_from([False, False, True, "nominal"])}),
        st.fixed_dictionaries({"shape": st.just("arc_radius"), "dx": nz, "dy": off,
                               "rf": st.one_of(st.floats(min_value=1.05, max_value=4.0),
                                               # radius barely above half the chord
                                               st.floats(min_value=1.00002, max_value=1.004)),
                               "neg": st.booleans(), "dz": dz, "zgiven": st.booleans()}),
        st.fixed_dictionaries({"shape": st.just("circle"), "cx": nz, "cy": off}),
        st.fixed_dictionaries({"shape": st.just("spline"),
                               "pts": st.lists(st.tuples(nz, off, dz), min_size=2, max_size=6),
                               "zgiven": st.booleans()}),
        # splines (and polylines) that revisit a control point or close on the start
        st.fixed_dictionaries({"shape": st.sampled_from(["spline", "spline", "polyline"]),
                               "pts": st.lists(st.tuples(nz, off, dz), min_size=2, max_size=5),
                               "zgiven": st.booleans(),
                               "closed": st.booleans(),
                               "revisit": st.one_of(st.none(), st.integers(0, 4))}),
        # constant-radius helices with several turns
        st.tuples(rad, ang, sweep, st.integers(2, max(2, max_turns)), dz, st.booleans()).map(
            lambda t: {"shape": "helix", "r": t[0], "a0": t[1], "r1": t[0], "sweep": t[2],
                       "turns": t[3], "dz": t[4], "zgiven": t[5], "full": False}),
        st.fixed_dictionaries({"shape": st.just("helix"), "r": rad, "a0": ang, "r1": rad,
                               "sweep": sweep, "turns": turns, "dz": dz,
                               "zgiven": st.booleans(), "full": st.sampled_from([False, False, True, "nominal"])}),
        st.fixed_dictionaries({"shape": st.just("thread"), "dx": nz, "dy": off,
                               "dz": st.floats(min_value=-12, max_value=12),
                               "pitch": st.floats(min_value=0.5, max_value=8.0)}),
        st.fixed_dictionaries({"shape": st.just("spiral"), "r1": rad,
                               "a1": ang.filter(lambda a: abs(a) > 0.05),
                               "turns": turns, "dz": dz, "zgiven": st.booleans()}),
        st.fixed_dictionaries({"shape": st.just("polyline"),
                               "pts": st.lists(st.tuples(off, off, dz), min_size=1, max_size=8),
                               "zgiven": st.booleans()}),
    )


def strategy(tier):
    from hypothesis import strategies as st
    c = st.one_of(st.integers(-50, 50).map(float), st.floats(min_value=-500, max_value=500),
                  st.just(0.0))
    start = st.one_of(st.none(), st.just([0.0, 0.0, 0.0]), st.tuples(c, c, c).map(list),
                      st.tuples(c, c, c).map(list))
    hi = 400 if tier == "quick" else 3000
    ratio = st.one_of(st.floats(min_value=2, max_value=60), st.floats(min_value=2, max_value=hi))
    return st.fixed_dictionaries({
        "start": start, "mode": st.sampled_from(["absolute", "relative"]),
        "dir": st.sampled_from(["cw", "ccw"]), "dp": st.integers(6, 9),
        "ratio": ratio, "desc": shape_strategy(8 if tier == "quick" else 64),
        "hooked": st.sampled_from([False, False, True]),
        "pre": st.one_of(st.none(), st.none(), hist.shape_strategy(2))})


def check(case, cl=None):
    cl = set() if cl is None else cl
    ratio = case["ratio"]
    d = case["desc"]
    if d["shape"] in ("helix", "spiral") and d["turns"] > 8:
        ratio = min(max(ratio, 30 * d["turns"]), 12000)
    # a polyline can only show the number of turns if it has several vertices
    # per turn: at least 8 per turn for multi-turn requests
    if d["shape"] in ("helix", "spiral"):
        ratio = max(ratio, 8.0 * d["turns"])
    if d["shape"] == "thread":
        ratio = max(ratio, 8.0 * max(1, int(abs(d["dz"]) / d["pitch"])))
    r = geom.run_shape(case["start"], case["mode"], case["dir"], case["dp"], d,
                       ratio=ratio, pre=case.get("pre"), hooked=bool(case.get("hooked")))
    if case.get("hooked"):
        cl.add("move_hook_registered")
    if d.get("cz") is not None:
        cl.add("centre_with_third_component")
    info, verts, res, s = r["info"], r["verts"], r["res"], r["s"]
    what = (f"{r['call'][0]}{tuple(r['call'][1])} from {r['start']} "
            f"({case['mode']}, {case['dir']}, res={res:.4g})")
    if r["exc"] is not None:
        raise Violation(f"{what} raised {type(r['exc']).__name__}: {r['exc']}")
    if not verts:
        raise Violation(f"{what} emitted nothing")
    n = len(verts)
    U = float(s.U)
    steps = n if case["mode"] == "relative" else 1
    scale = max(1.0, max(abs(c) for v in verts for c in v))
    tol = math.sqrt(3) * (steps + 1) * U + 1e-11 * scale * (steps + 1)
    tgt = info["target"]
    if math.dist(verts[-1], tgt) > tol + 1e-9 * scale:
        raise Violation(f"{what}: path ends at {verts[-1]}, requested target {tgt} "
                        f"(off by {math.dist(verts[-1], tgt):.3e})")
    bp = s.g.position
    if math.dist((bp.x, bp.y, bp.z), tgt) > 1e-9 * scale:
        raise Violation(f"{what}: builder position {tuple(bp)} after the path, target {tgt}")
    kind = info["kind"]
    cl.add("shape:" + d["shape"])
    if case["mode"] == "relative":
        cl.add("relative")
    if case.get("pre") is not None:
        cl.add("after_traced_path")
    if d.get("full"):
        cl.add("full_turn_request")
    if d.get("closed") or d.get("revisit") is not None:
        cl.add("revisits_control_point")
    if d["shape"] == "helix" and d["r"] == d["r1"] and d["turns"] > 1:
        cl.add("constant_radius_multi_turn")
    if kind in ("arc", "circle", "helix", "arc_radius"):
        if kind == "arc_radius":
            c, a0, S = geom.arc_radius_geometry(info["start"], tgt, info["R"],
                                                info["major"], info["cw"])
            if info["major"]:
                cl.add("major_arc")
            curve = geom.Curve(c, info["R"], info["R"], a0, S, info["z0"], info["dz"])
        elif kind == "helix":
            curve = geom.Curve(info["c"], info["r0"], info["r1"], info["a0"],
                               info["sweep"], info["z0"], info["dz"])
            if info["turns"] > 1:
                cl.add("turns>1")
        else:
            curve = geom.Curve(info["c"], info["r"], info["r"], info["a0"],
                               info["sweep"], info["z0"], info["dz"])
        if info["dz"] != 0:
            cl.add("dz!=0")
        params, total = geom.on_curve(curve, verts, res, tol, what)
        # starts at the current position: the first vertex is at most ~1
        # resolution into the curve
        first = math.dist(verts[0], r["start"])
        if first > 1.25 * res + tol:
            raise Violation(f"{what}: first vertex {verts[0]} is {first:.4g} away from "
                            f"the start position (resolution {res:.4g})")
    elif kind == "polyline":
        pts = info["pts"]
        if n != len(pts):
            raise Violation(f"{what}: {n} vertices for {len(pts)} points")
        for i, (v, q) in enumerate(zip(verts, pts)):
            if math.dist(v, q) > tol + 1e-9 * scale:
                raise Violation(f"{what}: vertex #{i} {v} is not the given point {q}")
    elif kind == "spline":
        ctrl = [r["start"]] + list(info["pts"])
        poly = [r["start"]] + verts
        pos = (0, 0.0)
        for k, cp in enumerate(ctrl):
            found = None
            for i in range(pos[0], len(poly) - 1):
                t = geom.segment_hits(cp, poly[i], poly[i + 1], res + tol,
                                      pos[1] if i == pos[0] else 0.0)
                if t is not None:
                    found = (i, t)
                    break
            if found is None:
                raise Violation(f"{what}: control point #{k} {cp} is not within one "
                                f"resolution ({res:.4g}) of the path at or after the "
                                "previous control point")
            pos = found
    nt = n >= 8 if kind != "polyline" else len(info["pts"]) >= 2
    origin = case["start"] is None or all(c == 0 for c in case["start"])
    if nt and not origin:
        cl.add("NT")
    return cl, n


def replay(case):
    check(case)


def run_shard(ctx):
    n = 110 if ctx.tier == "quick" else 1200

    def body(case):
        cl, nv = check(case, set())
        ctx.case(case, nontrivial="NT" in cl, classes=sorted(cl), steps=nv)

    run_hypothesis(ctx, strategy(ctx.tier), body, n)
    if ctx.tier == "thorough":
        from hypothesis import strategies as st
        many = st.fixed_dictionaries({
            "start": st.just([10.0, -5.0, 2.0]), "mode": st.sampled_from(["absolute", "relative"]),
            "dir": st.sampled_from(["cw", "ccw"]), "dp": st.just(8),
            "ratio": st.just(100.0),
            "desc": st.fixed_dictionaries({
                "shape": st.just("helix"), "r": st.floats(min_value=2, max_value=10),
                "a0": st.floats(min_value=-3, max_value=3), "r1": st.floats(min_value=2, max_value=10),
                "sweep": st.floats(min_value=0.1, max_value=6), "turns": st.integers(65, 600),
                "dz": st.floats(min_value=-50, max_value=50), "zgiven": st.just(True),
                "full": st.just(False)}),
            "pre": st.none()})

        def body2(case):
            cl, nv = check(case, set())
            ctx.case(case, nontrivial=True, classes=sorted(cl) + ["many_turns"], steps=nv)
        run_hypothesis(ctx, many, body2, 6, sub="many_turns")
