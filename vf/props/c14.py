"""C14 — every writer receives every line, once, in order, byte for byte.

Histories over add_writer / remove_writer / emitting calls / flush / teardown
with a pool of writers of five kinds (custom recording writer, path-based
FileWriter, FileWriter over BytesIO, over StringIO(newline=""), over a UTF-8
text file opened by the caller).  Model: ordered duplicate-free list of
registered writers and an expected byte string per writer.
"""

import io
import os
import shutil
import tempfile

from vf.runner import Violation, HarnessError, run_hypothesis
from vf.common import recorder_class, eol_of

ID = "C14"
LEVEL = "exploration"
SHARDS = {"quick": 8, "thorough": 16}
RULE = ("cases = (line ending out of 5, list of <=30 ops: add_writer(k) (new "
        "or already registered), remove_writer(k), raw write(text) with "
        "non-ASCII text and trailing blanks, move/comment/annotate calls, "
        "flush, teardown (after which writers may be re-added), the line ending "
        "changed on the live builder) over a pool "
        "of 10 writers of 9 kinds (custom recorder, path file x2, BytesIO, two "
        "NamedTemporaryFile objects - one binary, one text -, "
        "StringIO, caller-opened text file, ConsoleWriter on a fake terminal, "
        "LogWriter with a capturing handler), optionally plus the writers the "
        "builder creates itself from output=/print_lines=, optionally leaving "
        "the builder as a context manager; non-trivial = >=2 registered writers of "
        "different kinds and a change of the set between two emits; distinct "
        "by SHA-1")
ASSUMPTIONS = [
    "expected bytes of write(text) are computed independently: UTF-8 of "
    "text.rstrip() + configured line ending; for builder calls every writer "
    "must receive exactly what an always-registered reference recorder got",
    "a path-based FileWriter truncates when it re-opens its file after a "
    "teardown (pinned by the repo's own test_write_after_disconnect): 'so "
    "far' means since the writer last opened the file",
    "text streams with a non-UTF-8 encoding and writer failures mid-loop are "
    "outside the property's quantifier",
]
TECHNIQUE = ("model-based property testing (Hypothesis op lists) with an "
             "independent expectation per writer, file contents read back "
             "from disk / memory")
LEVEL_TEXT = ("Generated histories over a mixed writer pool compared with a "
              "reference model after every emit, flush and teardown; "
              "exploration.")

KINDS = ["recorder", "path", "bytesio", "stringio", "textfile", "path", "console", "log",
         # two objects of ONE Python class, one binary and one text
         # (tempfile.NamedTemporaryFile "w+b" / "w+")
         "tmp_bin", "tmp_text"]
LEFTOVER = b"; leftover of an earlier, longer program\n" * 40
CFG_OUTPUTS = [None, None, "cfg_path", "cfg_bytesio", "cfg_stringio"]


class _Tty(io.BytesIO):
    """stdout.buffer of a terminal: ConsoleWriter flushes after every line."""
    flushes = 0

    def isatty(self):
        return True

    def flush(self):
        self.flushes += 1
        return super().flush()


class _FakeStdout:
    def __init__(self):
        self.buffer = _Tty()

    def write(self, s):
        self.buffer.write(s.encode("utf-8"))

    def flush(self):
        pass
TEXTS = ["G1 X1", "G1 X1   ", "M3 S100 ; spindle", "; ümlaut ✓ 文字", "(msg, héllo)\t ",
         "G0 Z5", "", "   ", "; a", "T1 M6",
         # unicode line boundaries other than CR/LF must stay inside the one line
         # not in NFC form (combining accent, angstrom / ohm signs, conjoining jamo):
         # every writer gets the same bytes, nothing is normalised on the way
         "; cafe\u0301 \u212b \u2126", "; \u1100\u1161\u11a8 e\u0301",
         "; tool\u2028M112 now", "; a\x0bb\x0cc", "; x\x85y", "; p\x1cq\x1dr\x1es", "; para\u2029graph"]


class Pool:
    def __init__(self, tmp):
        import logging
        import sys
        from gscrib.writers import FileWriter, ConsoleWriter, LogWriter
        self.tmp = tmp
        self.disc = [0] * len(KINDS)
        self.log_records = []
        pool = self

        def spy(idx, base):
            class Spy(base):
                __slots__ = ()

                def disconnect(self, wait=True):
                    pool.disc[idx] += 1
                    return super().disconnect(wait)
            return Spy

        self.writers, self.readers = [], []
        for i, k in enumerate(KINDS):
            if k == "recorder":
                R = recorder_class()

                class RSpy(R):
                    def disconnect(self, wait=True):
                        pool.disc[0] += 1
                w = RSpy()
                self.readers.append(lambda w=w: bytes(w.data))
            elif k == "path":
                path = os.path.join(tmp, f"out{i}", "file.gcode")
                if i == 1:
                    # a longer file left over from an earlier run: a path-based
                    # output starts empty whatever was there before
                    os.makedirs(os.path.dirname(path))
                    with open(path, "wb") as fh0:
                        fh0.write(LEFTOVER)
                w = spy(i, FileWriter)(path)
                self.readers.append(lambda path=path: open(path, "rb").read()
                                    if os.path.exists(path) else b"")
            elif k == "bytesio":
                buf = io.BytesIO()
                w = spy(i, FileWriter)(buf)
                self.readers.append(lambda buf=buf: buf.getvalue())
            elif k == "stringio":
                sbuf = io.StringIO(newline="")
                w = spy(i, FileWriter)(sbuf)
                self.readers.append(lambda sbuf=sbuf: sbuf.getvalue().encode("utf-8"))
            elif k == "console":
                fake, real = _FakeStdout(), sys.stdout
                sys.stdout = fake
                try:
                    w = spy(i, ConsoleWriter)()
                finally:
                    sys.stdout = real
                self.readers.append(lambda fake=fake: fake.buffer.getvalue())
            elif k == "log":
                idx = i

                class LSpy(LogWriter):
                    __slots__ = ("got",)

                    def write(self, statement):
                        self.got += bytes(statement)
                        return super().write(statement)

                    def disconnect(self, wait=True):
                        pool.disc[idx] += 1
                        return super().disconnect(wait)
                w = LSpy()
                w.got = b""
                lg = w.get_logger()

                class H(logging.Handler):
                    def emit(self, record):
                        pool.log_records.append(record.getMessage())
                self.log_handler, self.logger = H(), lg
                self.logger_state = (lg.level, lg.propagate)
                lg.addHandler(self.log_handler)
                lg.propagate = False
                w.set_level("info")
                self.readers.append(lambda w=w: w.got)
            elif k in ("tmp_bin", "tmp_text"):
                tf = (tempfile.NamedTemporaryFile("w+b", dir=tmp, delete=False) if k == "tmp_bin"
                      else tempfile.NamedTemporaryFile("w+", dir=tmp, delete=False,
                                                       encoding="utf-8", newline=""))
                self.tmpfiles = getattr(self, "tmpfiles", []) + [tf]
                w = spy(i, FileWriter)(tf)

                def rd(tf=tf):
                    tf.flush()
                    return open(tf.name, "rb").read()
                self.readers.append(rd)
            elif k == "textfile":
                tpath = os.path.join(tmp, "text.gcode")
                fh = open(tpath, "w", encoding="utf-8", newline="")
                self.fh = fh
                w = spy(i, FileWriter)(fh)
                self.readers.append(lambda tpath=tpath: open(tpath, "rb").read())
            self.writers.append(w)

    def close(self):
        try:
            self.fh.close()
        except Exception:
            pass
        for tf in getattr(self, "tmpfiles", []):
            try:
                tf.close()
            except Exception:
                pass
        self.logger.removeHandler(self.log_handler)
        self.logger.setLevel(self.logger_state[0])
        self.logger.propagate = self.logger_state[1]


def run_case(case, cl=None):
    import gscrib
    cl = set() if cl is None else cl
    tmp = tempfile.mkdtemp(prefix="c14-")
    try:
        cfg_eol, eol = eol_of(case["eol"])
        pool = Pool(tmp)
        # writers the builder creates itself from its configuration (output=,
        # print_lines=): registered from the start until the first teardown
        kw, cfg_readers = {}, []
        out_kind = case.get("cfg_output")
        if out_kind == "cfg_path":
            cpath = os.path.join(tmp, "cfg", "deep", "job.gcode")
            kw["output"] = cpath
            cfg_readers.append(("cfg_path", lambda: open(cpath, "rb").read()
                                if os.path.exists(cpath) else b""))
        elif out_kind == "cfg_bytesio":
            cbuf = io.BytesIO()
            kw["output"] = cbuf
            cfg_readers.append(("cfg_bytesio", cbuf.getvalue))
        elif out_kind == "cfg_stringio":
            csbuf = io.StringIO(newline="")
            kw["output"] = csbuf
            cfg_readers.append(("cfg_stringio", lambda: csbuf.getvalue().encode("utf-8")))
        import sys
        fake_out, real_out = _FakeStdout(), sys.stdout
        if case.get("cfg_print"):
            kw["print_lines"] = True
            # the console writer comes first in the builder's list
            cfg_readers.insert(0, ("cfg_console", fake_out.buffer.getvalue))
            sys.stdout = fake_out
        try:
            g = gscrib.GCodeBuilder(line_endings=cfg_eol, **kw)
        finally:
            sys.stdout = real_out
        if cfg_readers:
            cl.add("writers_from_configuration")
        kinds = KINDS + [k for k, _ in cfg_readers]
        pool.readers.extend(r for _, r in cfg_readers)
        ref = recorder_class()()
        g.add_writer(ref)
        registered = list(range(len(KINDS), len(kinds)))     # indices, in order
        expected = [b""] * len(kinds)
        expected[1] = LEFTOVER             # until writer #1 opens its file (truncating)
        is_open = [False] * len(kinds)     # path writers: file currently open
        log_expected = []
        emits = 0
        changed_since_emit = False

        def deliver(data):
            for i in registered:
                if kinds[i] in ("path", "cfg_path") and not is_open[i]:
                    expected[i] = b""      # (re)opening truncates
                    is_open[i] = True
                expected[i] += data
                if kinds[i] == "log":
                    log_expected.append(data.decode("utf-8").strip())
                if kinds[i] in ("console", "cfg_console"):
                    cl.add("console_writer")

        def check_all(where, only_memory=False, skip=()):
            if pool.log_records != log_expected:
                raise Violation(f"{where}: LogWriter logged {pool.log_records[-3:]!r} "
                                f"({len(pool.log_records)} records), expected "
                                f"{log_expected[-3:]!r} ({len(log_expected)})")
            for i, k in enumerate(kinds):
                if only_memory and k in ("path", "textfile", "cfg_path"):
                    continue
                if i in skip:
                    continue
                got = pool.readers[i]()
                if got != expected[i]:
                    raise Violation(f"{where}: writer #{i} ({k}) holds {got[-80:]!r} "
                                    f"({len(got)} bytes), expected {expected[i][-80:]!r} "
                                    f"({len(expected[i])} bytes)")

        for n, op in enumerate(case["ops"]):
            name = op["op"]
            where = f"op #{n} {op!r}"
            if name == "add":
                g.add_writer(pool.writers[op["k"]])
                if op["k"] not in registered:
                    registered.append(op["k"])
                    changed_since_emit = True
                else:
                    cl.add("add_already_registered")
            elif name == "readd":
                if op["k"] in registered:
                    before_d = pool.disc[op["k"]]
                    g.remove_writer(pool.writers[op["k"]])
                    g.write("; between removal and re-adding")
                    data = ("; between removal and re-adding" + eol).encode("utf-8")
                    registered.remove(op["k"])
                    deliver(data)
                    g.add_writer(pool.writers[op["k"]])
                    registered.append(op["k"])
                    changed_since_emit = True
                    cl.add("writer_removed_and_added_again")
            elif name == "remove":
                g.remove_writer(pool.writers[op["k"]])
                if op["k"] in registered:
                    registered.remove(op["k"])
                    changed_since_emit = True
            elif name in ("write", "call"):
                b0 = len(ref.data)
                try:
                    if name == "write":
                        g.write(op["text"])
                    elif op["call"] == "move":
                        g.move(x=op["v"], comment=op["text"] or None)
                    elif op["call"] == "comment":
                        g.comment(op["text"])
                    else:
                        g.annotate("key", op["text"])
                except Exception as e:
                    raise Violation(f"{where} raised {type(e).__name__}: {e}")
                if name == "write":
                    data = (op["text"].rstrip() + eol).encode("utf-8")
                    if bytes(ref.data[b0:]) != data:
                        raise Violation(f"{where}: reference writer received "
                                        f"{bytes(ref.data[b0:])!r}, expected {data!r}")
                else:
                    data = bytes(ref.data[b0:])
                    if not data.endswith(eol.encode()) or data.count(eol.encode()) != 1 \
                            and eol not in op["text"]:
                        raise Violation(f"{where}: emitted {data!r} is not one line")
                deliver(data)
                kset = {kinds[i] for i in registered}
                if len(kset) >= 2:
                    cl.add("two_kinds_registered")
                    if changed_since_emit and emits > 0:
                        cl.add("NT")
                emits += 1
                changed_since_emit = False
                check_all(where, only_memory=True)
            elif name == "other_builder":
                ob = gscrib.GCodeBuilder(line_endings="\\r\\n", comment_symbols="(")
                orec = recorder_class()()
                ob.add_writer(orec)
                ob.write("G1 X99 ; other builder")
                ob.comment("other")
                if bytes(orec.data) != b"G1 X99 ; other builder\r\n( other )\r\n":
                    raise Violation(f"{where}: a second builder's own writer received "
                                    f"{bytes(orec.data)!r}")
                cl.add("other_builder_active")
                check_all(where, only_memory=True)
            elif name == "set_eol":
                # the line ending is changed on the live builder
                cfg2, eol = eol_of(op["eol"])
                g.format.set_line_endings(cfg2)
                cl.add("line_ending_changed_mid_history")
            elif name == "flush":
                g.flush()
                for i in registered:
                    pass
                # flushed writers must now show everything on disk
                for i, k in enumerate(kinds):
                    if i in registered or k in ("recorder", "bytesio", "stringio", "console",
                                                "log", "cfg_bytesio", "cfg_stringio",
                                                "cfg_console"):
                        got = pool.readers[i]()
                        if got != expected[i]:
                            raise Violation(f"{where}: after flush writer #{i} ({k}) holds "
                                            f"{len(got)} bytes {got[-60:]!r}, expected "
                                            f"{len(expected[i])} bytes {expected[i][-60:]!r}")
                cl.add("flush")
            elif name == "teardown":
                before = list(pool.disc)
                g.teardown()
                for i in range(len(KINDS)):      # config-created writers cannot be spied on
                    want = 1 if i in registered else 0
                    if pool.disc[i] - before[i] != want:
                        raise Violation(f"{where}: writer #{i} ({KINDS[i]}) saw "
                                        f"{pool.disc[i] - before[i]} disconnect(s), expected {want}")
                for i in registered:
                    if kinds[i] in ("path", "cfg_path"):
                        is_open[i] = False
                try:
                    g.get_writer(0)
                    raise Violation(f"{where}: writers still registered after teardown")
                except IndexError:
                    pass
                if ref.disconnects < 1:
                    raise Violation(f"{where}: reference writer not disconnected")
                # path files are closed, caller-owned text file needs its own flush
                pool.fh.flush()
                # a path writer that was removed while its file is open is
                # neither flushed nor closed by the builder: not judged
                check_all(where, skip=[i for i, k in enumerate(kinds) if k == "path"
                                       and is_open[i] and i not in registered])
                registered = []
                g.add_writer(ref)
                changed_since_emit = True
                cl.add("teardown")
            else:
                raise HarnessError("unknown op")
        g.flush()
        pool.fh.flush()
        if case.get("cfg_with"):
            # the builder as a context manager: leaving the block tears down,
            # after which path-based output is complete on disk
            with g:
                pass
            cl.add("builder_as_context_manager")
            for i in registered:
                if kinds[i] in ("path", "cfg_path"):
                    is_open[i] = False
            registered = []
        for i, k in enumerate(kinds):
            if k == "path" and is_open[i] and i not in registered:
                continue      # removed while open: never flushed by the builder
            got = pool.readers[i]()
            if got != expected[i]:
                raise Violation(f"end of history: writer #{i} ({k}) holds {len(got)} bytes "
                                f"{got[-60:]!r}, expected {len(expected[i])} bytes "
                                f"{expected[i][-60:]!r}")
        g.teardown()
        pool.close()
        return cl
    finally:
        shutil.rmtree(tmp, ignore_errors=True)


def replay(case):
    run_case(case)


def strategy(n):
    from hypothesis import strategies as st
    k = st.integers(0, len(KINDS) - 1)
    text = st.one_of(st.sampled_from(TEXTS), st.text(max_size=12).filter(
        lambda t: "\n" not in t and "\r" not in t))
    op = st.one_of(
        k.map(lambda i: {"op": "add", "k": i}), k.map(lambda i: {"op": "add", "k": i}),
        k.map(lambda i: {"op": "remove", "k": i}),
        text.map(lambda t: {"op": "write", "text": t}),
        text.map(lambda t: {"op": "write", "text": t}),
        st.tuples(st.sampled_from(["move", "comment", "annotate"]), text,
                  st.integers(-50, 50)).map(
            lambda t: {"op": "call", "call": t[0], "text": t[1], "v": float(t[2])}),
        st.just({"op": "flush"}), st.just({"op": "teardown"}),
        # a writer taken out and put back later: it goes on where it was
        k.map(lambda i: {"op": "readd", "k": i}),
        st.sampled_from(["lf", "crlf", "cr"]).map(lambda e: {"op": "set_eol", "eol": e}),
        st.just({"op": "other_builder"}))
    return st.fixed_dictionaries({
        "eol": st.sampled_from(["lf", "crlf", "cr", "rawlf", "rawcrlf"]),
        "cfg_output": st.sampled_from(CFG_OUTPUTS),
        "cfg_print": st.sampled_from([False, False, False, True]),
        "cfg_with": st.booleans(),
        "ops": st.lists(op, min_size=1, max_size=n)})


def run_shard(ctx):
    n = 300 if ctx.tier == "quick" else 20000

    def body(case):
        cl = run_case(case, set())
        ctx.case(case, nontrivial="NT" in cl, classes=sorted(cl), steps=len(case["ops"]))

    run_hypothesis(ctx, strategy(30 if ctx.tier == "quick" else 45), body, n)
