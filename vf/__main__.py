import sys
import warnings
warnings.filterwarnings("ignore", category=RuntimeWarning)
from vf.runner import main
sys.exit(main())
