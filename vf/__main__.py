import sys
import traceback
import warnings
warnings.filterwarnings("ignore", category=RuntimeWarning)
from vf.runner import main
try:
    code = main()
except SystemExit:
    raise
except BaseException:
    traceback.print_exc()
    print("HARNESS ERROR (uncaught exception in the runner)")
    code = 2
sys.exit(code)
