"""Simulated device side for C15/C16: a pyserial-like FakeSerial backed by a
Marlin-style line-number/checksum firmware model with harness-controlled
reply availability (latency in polls, explicit gates), fault injection
(corrupted transmissions, error replies, unsolicited lines, connection loss),
plus a loopback TCP front end for the socket transport.
"""

import collections
import re
import socket
import threading
import time
from unittest import mock

NUMBERED = re.compile(r"^N(-?\d+) (.*)\*(\d+)$")


def xor_checksum(text):
    c = 0
    for ch in text:
        c ^= ord(ch)
    return c


class Firmware:
    """Protocol model.  All methods are thread-safe."""

    def __init__(self, greeting="start", dialect="marlin", corrupt=(),
                 latency=None, behaviours=None, reports=None):
        self.lock = threading.RLock()
        self.greeting = greeting
        self.dialect = dialect
        self.corrupt = set(corrupt)
        self.latency = latency or (lambda i: 0)
        self.behaviours = behaviours or {}     # statement index -> dict (C16)
        self.reports = reports or {}
        self.out = collections.deque()         # [polls_left, bytes, gate_id or None]
        self.rx = []                           # every line received, in order
        self.accepted = []                     # commands accepted by the firmware
        self.accepted_numbers = []
        self.accepted_job = []                 # bodies of accepted numbered lines
        # Marlin boots with line counter 0: the first numbered line it accepts
        # without an M110 reset is N1, which is why hosts send "M110 N-1" first
        self.last_n = 0                        # last accepted line number
        self.tx_index = 0                      # numbered job-line transmissions seen
        self.transmissions = []                # (tx_index, n, body, corrupted, ok_checksum)
        self.resend_requests = []              # (tx_index_at_request, requested_n)
        self.wire_errors = []
        self.reply_seq = 0
        self.gates = {}                        # gate id -> threading.Event
        self.stmt_index = 0                    # unnumbered statements seen (C16)
        self.stmt_log = []                     # (index, text, time)
        self.lost = False                      # connection lost
        self.last_activity = time.time()
        self.opened = False

    # -- device side ----------------------------------------------------------
    def open(self):
        with self.lock:
            self.opened = True
            if isinstance(self.greeting, (list, tuple)):
                for line in self.greeting:      # several boot lines
                    self._reply(line)
            elif self.greeting:
                self._reply(self.greeting)

    def _reply(self, text, polls=None, gate=None):
        if polls is None:
            polls = self.latency(self.reply_seq)
        self.reply_seq += 1
        self.out.append([polls, (text + "\n").encode("ascii", "replace"), gate])

    def readline(self):
        with self.lock:
            if self.lost:
                raise OSError("connection lost")
            if self.out:
                head = self.out[0]
                if head[2] is not None and not self.gates[head[2]].is_set():
                    pass
                elif head[0] > 0:
                    head[0] -= 1
                else:
                    self.out.popleft()
                    self.last_activity = time.time()
                    return head[1]
        time.sleep(0.0004)
        return b""

    def pending(self):
        with self.lock:
            return len(self.out)

    def write(self, data):
        with self.lock:
            if self.lost:
                raise OSError("connection lost")
            self.last_activity = time.time()
            text = data.decode("ascii", "replace")
            for line in text.split("\n"):
                if line != "" or not text.endswith("\n"):
                    self._on_line(line)

    def _on_line(self, line):
        self.rx.append(line)
        m = NUMBERED.match(line)
        if m:
            self._numbered(int(m.group(1)), m.group(2), int(m.group(3)), line)
        elif line.startswith("N") and "*" in line:
            self.wire_errors.append(f"malformed numbered line {line!r}")
            self._reply("Error:malformed line")
            self._reply("ok")
        else:
            self._plain(line)

    def _resend(self, n):
        if self.dialect == "marlin":
            self._reply(f"Resend: {n}")
            self._reply("ok")
        elif self.dialect == "marlin_nospace":
            self._reply(f"Resend:{n}")
            self._reply("ok")
        elif self.dialect == "teacup":
            self._reply(f"rs {n} Expected checksum 1")
        else:
            self._reply(f"Resend: {n}")

    def _numbered(self, n, body, cs, line):
        calc = xor_checksum(f"N{n} {body}")
        good = calc == cs
        if not good:
            self.wire_errors.append(f"bad checksum on the wire: {line!r} (expected {calc})")
        if body.startswith("M110"):
            mm = re.search(r"N(-?\d+)", body)
            self.last_n = int(mm.group(1)) if mm else n
            self.accepted.append("M110")
            self._reply("ok")
            return
        idx = self.tx_index
        self.tx_index += 1
        corrupted = idx in self.corrupt
        status = "corrupt" if (corrupted or not good) else \
            ("sequence" if (self.last_n is not None and n != self.last_n + 1) else "ok")
        self.transmissions.append((idx, n, body, corrupted, good, status))
        if corrupted or not good:
            exp = (self.last_n if self.last_n is not None else -1) + 1
            self._reply(f"Error:checksum mismatch, Last Line: {exp - 1}")
            self.resend_requests.append((idx, exp))
            self._resend(exp)
            return
        if self.last_n is not None and n != self.last_n + 1:
            exp = self.last_n + 1
            self._reply(f"Error:Line Number is not Last Line Number+1, Last Line: {exp - 1}")
            self.resend_requests.append((idx, exp))
            self._resend(exp)
            return
        self.last_n = n
        self.accepted.append(body)
        self.accepted_job.append(body)
        self.accepted_numbers.append(n)
        self._reply("ok")

    def _plain(self, line):
        """Unnumbered statement (direct writes, handshake)."""
        if line.strip() == "":
            return
        idx = self.stmt_index
        self.stmt_index += 1
        self.stmt_log.append((idx, line, time.time()))
        self.accepted.append(line)
        beh = self.behaviours.get(line) or self.behaviours.get(idx) or {}
        gate = beh.get("gate")
        if gate is not None and gate not in self.gates:
            self.gates[gate] = threading.Event()
        for u in beh.get("unsolicited", ()):
            self._reply(u)
        if beh.get("lose"):
            self.lost = True
            return
        if beh.get("error"):
            self._reply(beh["error"], gate=gate)
            return
        after = list(beh.get("after", ()))
        rep = beh.get("report")
        if rep is None:
            if line.startswith("M114"):
                rep = self.reports.get("M114")
            elif line.startswith("M105"):
                rep = self.reports.get("M105")
        if rep and not rep.startswith("ok"):
            self._reply(rep, gate=gate)
            self._reply("ok", gate=gate)
        elif rep:
            self._reply(rep, gate=gate)
        else:
            self._reply("ok", gate=gate)
        for line in after:          # unsolicited lines some time after the acknowledgement
            self._reply(line, polls=60, gate=gate)

    def release(self, gate):
        with self.lock:
            if gate not in self.gates:
                self.gates[gate] = threading.Event()
            self.gates[gate].set()

    def gate_waiting(self, gate):
        """True if the head of the reply queue is held by this gate."""
        with self.lock:
            return bool(self.out) and self.out[0][2] == gate and \
                not self.gates[gate].is_set()


def wait_handshake_drained(fw, m110_before=0, timeout=5.0):
    """After connect(): wait until the connect handshake is over AND its replies
    have been read.  The sender probes with G4 P0, starts an empty print (M110
    N-1) and resets the numbering once more when that print ends, about 0.1 s
    later; a first write() issued while one of those replies is unread runs
    into the recorded finding handshake-oks-shift-acks.  Devices that greet
    with 'Grbl' get no M110 at all."""
    t0, quiet = time.time(), None
    grbl = isinstance(fw.greeting, str) and fw.greeting.startswith("Grbl")
    while time.time() - t0 < timeout:
        with fw.lock:
            seen = sum(1 for l in fw.rx if "M110" in l) - m110_before
            idle = len(fw.out) == 0
        if idle and (grbl or seen >= 2 or time.time() - t0 > 1.0):
            quiet = quiet or time.time()
            if time.time() - quiet > 0.06:
                return
        else:
            quiet = None
        time.sleep(0.004)


class FakeSerial:
    """Drop-in for serial.Serial; the firmware instance is taken from the
    class attribute `firmware` at construction time."""
    firmware = None

    def __init__(self, *a, **k):
        self.fw = FakeSerial.firmware
        self.is_open = False
        self.port = k.get("port")
        self.baudrate = k.get("baudrate")
        self.timeout = k.get("timeout")
        self.parity = k.get("parity")
        self.dtr = None

    def open(self):
        self.is_open = True
        self.fw.open()

    def close(self):
        self.is_open = False

    def readline(self):
        if not self.is_open:
            import serial
            raise serial.SerialException("port closed")
        T = self.timeout or 0.25
        stash = getattr(self, "_stash", None)
        if stash is not None:
            remaining, data = stash
            if remaining <= T:
                time.sleep(max(remaining, 0))
                self._stash = None
                return data
            time.sleep(T)
            self._stash = (remaining - T, data)
            return b""
        try:
            line = self.fw.readline()
        except OSError as e:
            import serial
            raise serial.SerialException(str(e))
        gap = getattr(self.fw, "burst_gap", 0)
        if line and gap and len(line) > 12:
            # the device sends the line in two bursts `gap` seconds apart:
            # Serial.readline() returns at the newline, or with what it has when
            # its timeout expires first (a partial line)
            if gap <= T:
                time.sleep(gap)
                return line
            time.sleep(T)
            self._stash = (gap - T, line[len(line) // 2:])
            return line[:len(line) // 2]
        return line

    def write(self, data):
        try:
            self.fw.write(data)
        except OSError as e:
            import serial
            raise serial.SerialException(str(e))
        if getattr(self.fw, "sync_reply", False):
            # a device that answers at once and a sender thread that is
            # preempted right after the write: the reply has been read and
            # handled by the reader thread before write() returns
            t0 = time.time()
            while self.fw.pending() and time.time() - t0 < 0.05:
                time.sleep(0.0003)
            time.sleep(0.001)
        return len(data)

    def flush(self):
        pass


class patched_serial:
    """Context manager: gscrib's Device talks to `fw` instead of a port."""

    def __init__(self, fw):
        self.fw = fw

    def __enter__(self):
        from gscrib.printrun import device as devmod
        FakeSerial.firmware = self.fw
        self.p1 = mock.patch.object(devmod.serial, "Serial", FakeSerial)
        self.p2 = mock.patch.object(devmod.Device, "_disable_ttyhup", lambda self: None)
        self.p1.start()
        self.p2.start()
        return self.fw

    def __exit__(self, *a):
        self.p1.stop()
        self.p2.stop()


class TcpFront:
    """Loopback TCP server bridging one client connection to a Firmware."""

    def __init__(self, fw, split=None):
        self.fw = fw
        # split: None | callable(bytes) -> list of pieces sent as separate
        # packets (TCP_NODELAY, a pause between them)
        self.split = split
        self.srv = socket.socket(socket.AF_INET, socket.SOCK_STREAM)
        self.srv.setsockopt(socket.SOL_SOCKET, socket.SO_REUSEADDR, 1)
        self.srv.bind(("127.0.0.1", 0))
        self.srv.listen(1)
        self.port = self.srv.getsockname()[1]
        self.stop = False
        self.conn = None
        self.thread = threading.Thread(target=self._run, daemon=True)
        self.thread.start()

    def _run(self):
        self.srv.settimeout(5.0)
        try:
            conn, _ = self.srv.accept()
        except OSError:
            return
        self.conn = conn
        conn.setsockopt(socket.IPPROTO_TCP, socket.TCP_NODELAY, 1)
        conn.settimeout(0.002)
        self.fw.open()
        buf = b""
        while not self.stop:
            try:
                out = self.fw.readline()
            except OSError:
                break
            if out:
                try:
                    if self.split is None:
                        conn.sendall(out)
                    else:
                        for piece in self.split(out):
                            if piece:
                                conn.sendall(piece)
                                time.sleep(0.004)
                except OSError:
                    break
            try:
                data = conn.recv(4096)
                if data == b"":
                    break
                buf += data
                while b"\n" in buf:
                    line, buf = buf.split(b"\n", 1)
                    try:
                        self.fw.write(line + b"\n")
                    except OSError:
                        self.stop = True
                        break
            except socket.timeout:
                pass
            except OSError:
                break
        try:
            conn.close()
        except OSError:
            pass

    def close(self):
        self.stop = True
        try:
            self.srv.close()
        except OSError:
            pass
        self.thread.join(2)
