"""Histories over the state-tracked builder API (tool, coolant, halts, modes,
temperatures, parameters) as JSON-able call descriptors, plus the comparison
of GState with the independent interpreter (used by C02, C06, C07)."""

from fractions import Fraction

from vf.runner import Violation, HarnessError

GRID = [0, 0.5, 1, 60, 100, 1000, 12345.678]
SPIN = ["cw", "ccw", "clockwise", "counter"]
POWER = ["constant", "dynamic"]
HALTS = ["pause", "optional-pause", "end-without-reset", "end-with-reset",
         "pallet-exchange", "wait-for-bed", "wait-for-hotend",
         "wait-for-chamber", "wait-for-motion"]
HALT_CODE = {"pause": "M0", "optional-pause": "M1", "end-without-reset": "M2",
             "end-with-reset": "M30", "pallet-exchange": "M60",
             "wait-for-bed": "M190", "wait-for-hotend": "M109",
             "wait-for-chamber": "M191", "wait-for-motion": "M400"}
GUARDED_BY_BOTH = {"tool_change", "halt", "pause", "stop", "wait"}


def C(op, *args, **kw):
    d = {"op": op}
    if args:
        d["args"] = list(args)
    if kw:
        d["kw"] = kw
    return d


def value_strategy():
    from hypothesis import strategies as st
    return st.one_of(st.sampled_from(GRID), st.sampled_from(GRID),
                     st.floats(min_value=0, max_value=1e5, allow_nan=False),
                     st.integers(0, 5000))


def signed_value_strategy():
    from hypothesis import strategies as st
    return st.one_of(st.sampled_from(GRID),
                     st.floats(min_value=-1e4, max_value=1e4, allow_nan=False),
                     st.integers(-500, 500))


def call_strategy(moves=True, extras=True):
    from hypothesis import strategies as st
    from vf.hist import weighted, equally
    v = value_strategy()
    sv = signed_value_strategy()
    small = st.one_of(st.integers(-20, 20).map(float),
                      st.integers(-160, 160).map(lambda k: k / 8.0))
    # (explicit weights: see hist.weighted)
    interlock = weighted(
        (3, st.tuples(st.sampled_from(SPIN), v).map(lambda t: C("tool_on", *t))),
        (3, st.just(C("tool_off"))),
        (2, st.tuples(st.sampled_from(POWER), v).map(lambda t: C("power_on", *t))),
        (2, st.just(C("power_off"))),
        (2, st.sampled_from(["mist", "flood"]).map(lambda m: C("coolant_on", m))),
        (2, st.just(C("coolant_off"))),
        (2, st.tuples(st.sampled_from(["manual", "automatic"]), st.integers(1, 99)).map(
            lambda t: C("tool_change", *t))),
        (2, st.sampled_from(HALTS).map(lambda m: C("halt", m))),
        (2, st.tuples(st.sampled_from(["wait-for-bed", "wait-for-hotend", "wait-for-chamber"]),
                      st.sampled_from(["S", "R", "s", "r"]), sv).map(
            lambda t: C("halt", t[0], **{t[1]: t[2]}))),
        # a plain halt with a time word (Marlin: M0 S<seconds> / P<ms>): the word
        # is neither a temperature nor a spindle speed
        (1, st.tuples(st.sampled_from(["pause", "optional-pause", "end-with-reset",
                                       "pallet-exchange", "wait-for-motion"]),
                      st.sampled_from(["S", "R", "P", "s"]), v).map(
            lambda t: C("halt", t[0], **{t[1]: t[2]}))),
        (1, st.booleans().map(lambda b: C("pause", b))),
        (1, st.booleans().map(lambda b: C("stop", b))),
        (1, st.just(C("wait"))),
        (1, st.tuples(st.sampled_from(["jam", "limit hit"]), st.booleans()).map(
            lambda t: C("emergency_halt", *t))),
    )
    pairs = [(6, interlock)]
    if moves:
        params = st.fixed_dictionaries({}, optional={
            "F": v, "S": v, "E": sv, "A": sv, "p": sv})
        axes = st.fixed_dictionaries({}, optional={"x": small, "y": small, "z": small})
        mv = st.tuples(st.sampled_from(["move", "move", "rapid", "move_absolute",
                                        "rapid_absolute"]), axes, params).map(
            lambda t: C(t[0], **dict(t[1], **t[2])))
        pr = st.tuples(st.sampled_from(["towards", "away", "towards-no-error",
                                        "away-no-error"]), axes, params).map(
            lambda t: C("probe", t[0], **dict(t[1], **t[2])))
        sa = st.tuples(st.sampled_from(["set_axis", "auto_home"]), axes,
                       st.fixed_dictionaries({}, optional={"E": sv, "A": sv})).map(
            lambda t: C(t[0], **dict(t[1], **t[2])))
        pairs += [(4, mv), (1, pr), (1, sa)]
    if extras:
        misc = equally(
            st.sampled_from(["absolute", "relative"]).map(lambda m: C("set_distance_mode", m)),
            v.map(lambda x: C("set_feed_rate", x)),
            v.map(lambda x: C("set_tool_power", x)),
            sv.map(lambda x: C("set_bed_temperature", x)),
            sv.map(lambda x: C("set_hotend_temperature", x)),
            sv.map(lambda x: C("set_chamber_temperature", x)),
            v.map(lambda x: C("sleep", x)),
            st.tuples(st.integers(0, 255), st.integers(0, 3)).map(
                lambda t: C("set_fan_speed", *t)),
            st.sampled_from(["position", "temperature"]).map(lambda m: C("query", m)),
            st.sampled_from(["in", "mm", "inches", "millimeters"]).map(
                lambda m: C("set_length_units", m)),
            st.sampled_from(["xy", "zx", "yz"]).map(lambda m: C("set_plane", m)),
            st.sampled_from(["1/time", "units/min", "units/rev"]).map(
                lambda m: C("set_feed_mode", m)),
            st.sampled_from(["absolute", "relative"]).map(
                lambda m: C("set_extrusion_mode", m)),
            st.sampled_from(["s", "ms"]).map(lambda m: C("set_time_units", m)),
            st.sampled_from(["celsius", "kelvin"]).map(
                lambda m: C("set_temperature_units", m)),
            st.just(C("comment", "note")),
            st.sampled_from([None, {"decimal_places": 1}, {"comment_symbols": "(", "y_axis": "V"}]).map(
                lambda c: {"op": "other_builder", "cfg": c}),
            # a traced path that fails part-way (a hook raises on segment after+1)
            st.tuples(st.sampled_from(["circle", "polyline", "spline"]), st.integers(0, 4)).map(
                lambda t: {"op": "aborted_path", "shape": t[0], "after": t[1]}),
        )
        pairs += [(4, misc)]
    return weighted(*pairs)


# ---------------------------------------------------------------------------
# interlock reference model (documented rules only)
# ---------------------------------------------------------------------------

class InterlockModel:
    def __init__(self):
        self.tool = False
        self.coolant = False
        self.start_api = None

    def reasons(self, call):
        """Set of exception class names that the documented rules allow."""
        op = call["op"]
        r = set()
        if op in ("tool_on", "power_on") and self.tool:
            r.add("ToolStateError")
        if op == "coolant_on" and self.coolant:
            r.add("CoolantStateError")
        if op in GUARDED_BY_BOTH:
            if self.tool:
                r.add("ToolStateError")
            if self.coolant:
                r.add("CoolantStateError")
        return r

    def commit(self, call):
        op = call["op"]
        if op in ("tool_on", "power_on"):
            self.tool = True
            self.start_api = op
        elif op in ("tool_off", "power_off"):
            self.tool = False
        elif op == "coolant_on":
            self.coolant = True
        elif op == "coolant_off":
            self.coolant = False
        elif op == "emergency_halt":
            self.tool = False
            self.coolant = False


def other_builder_activity(cfg=None):
    """Create ANOTHER builder and use it heavily: tool and coolant on, bounds,
    moves, transforms, hooks, temperatures.  Nothing of this may leak into the
    builder under test (class-level / shared state)."""
    try:
        return _other_builder_activity(cfg)
    except Violation:
        raise
    except Exception as e:
        raise Violation(f"ordinary use of a SECOND, freshly created builder raised "
                        f"{type(e).__name__}: {e} (state leaking between builder objects?)")


def _other_builder_activity(cfg=None):
    import gscrib
    from vf.common import recorder_class
    o = gscrib.GCodeBuilder(**(cfg or {}))
    o.add_writer(recorder_class()())
    o.set_bounds("axes", (-5, -5, -5), (5, 5, 5))
    o.set_bounds("feed-rate", 1, 50)
    o.set_bounds("tool-power", 1, 50)
    o.transform.translate(100.0, 50.0, 25.0)
    o.transform.save_state("shared")
    def foreign_hook(origin, target, params, state):
        # a hook registered on THIS builder must only ever see this builder
        if state is not o.state:
            raise RuntimeError("a move hook registered on another builder was called")
        return params
    o.add_hook(foreign_hook)
    o.move(x=1, y=1, F=20)
    o.tool_on("cw", 10)
    o.coolant_on("mist")
    o.set_hotend_temperature(215.0)
    o.set_distance_mode("relative")
    o.set_extrusion_mode("relative")
    o.set_length_units("in")
    o.move(x=1, E=3.0, A=9.0)
    return o


def close(fr, value, U):
    """Interpreter value (Fraction from a decimal word) vs a float the state holds."""
    import math
    if fr is None or value is None or not math.isfinite(float(value)):
        return False
    ex = Fraction(float(value))
    return abs(fr - ex) <= U or float(fr) == float(value)


def compare_state(s, model, where):
    """GState vs interpreter after a call (C07 relation). s: common.Session."""
    g, m, U = s.g, s.machine, s.U
    st = g.state

    def bad(msg):
        raise Violation(f"{where}: {msg}; last lines {[b[2] for b in s.blocks[-3:]]!r}")

    if st.is_tool_active != m.tool_on:
        bad(f"state.is_tool_active={st.is_tool_active} but program has tool "
            f"{'on' if m.tool_on else 'off'}")
    if m.tool_on:
        if model.start_api == "tool_on":
            exp = {"clockwise": "M3", "counter": "M4"}.get(st.spin_mode.value)
            what = f"spin_mode={st.spin_mode.value}"
        else:
            exp = {"constant": "M3", "dynamic": "M4"}.get(st.power_mode.value)
            what = f"power_mode={st.power_mode.value}"
        if exp != m.tool_code:
            bad(f"tool started with {m.tool_code} but state reports {what}")
        if not close(m.S, st.tool_power, U):
            bad(f"tool running with S={None if m.S is None else float(m.S)} but "
                f"state.tool_power={st.tool_power!r}")
    cool = {None: "off", "M7": "mist", "M8": "flood"}[m.coolant]
    if st.coolant_mode.value != cool or st.is_coolant_active != (m.coolant is not None):
        bad(f"coolant in program {cool} but state reports {st.coolant_mode.value} "
            f"active={st.is_coolant_active}")
    if m.T is None:
        if st.tool_number != 0:
            bad(f"state.tool_number={st.tool_number} but no tool change emitted")
    elif m.T != st.tool_number:
        bad(f"program selected tool {m.T} but state.tool_number={st.tool_number}")
    if m.F is None:
        if st.feed_rate != 0:
            bad(f"state.feed_rate={st.feed_rate} but no F word emitted")
    elif not close(m.F, st.feed_rate, U):
        bad(f"program feed F={float(m.F)} but state.feed_rate={st.feed_rate!r}")
    if m.relative != st.distance_mode.is_relative or \
            m.relative != g.distance_mode.is_relative:
        bad(f"distance mode program={'G91' if m.relative else 'G90'} state="
            f"{st.distance_mode.value} builder={g.distance_mode.value}")
    ext = {None: "absolute", "M82": "absolute", "M83": "relative"}[m.extrusion]
    if st.extrusion_mode.value != ext:
        bad(f"extrusion mode program={m.extrusion} state={st.extrusion_mode.value}")
    fm = {None: "units/min", "G93": "1/time", "G94": "units/min",
          "G95": "units/rev"}[m.feed_mode]
    if st.feed_mode.value != fm:
        bad(f"feed mode program={m.feed_mode} state={st.feed_mode.value}")
    un = {None: "millimeters", "G20": "inches", "G21": "millimeters"}[m.units]
    if st.length_units.value != un:
        bad(f"length units program={m.units} state={st.length_units.value}")
    pl = {None: "xy", "G17": "xy", "G18": "zx", "G19": "yz"}[m.plane]
    if st.plane.value != pl:
        bad(f"plane program={m.plane} state={st.plane.value}")
    for key, val in (("hotend", st.target_hotend_temperature),
                     ("bed", st.target_bed_temperature),
                     ("chamber", st.target_chamber_temperature)):
        mv = m.temps[key]
        if mv is None:
            if val != float("-inf"):
                bad(f"state target {key} temperature {val} but none emitted")
        elif not close(mv, val, U):
            bad(f"program set {key} temperature {float(mv)} but state reports {val!r}")
    for letter, mv in m.last.items():
        a = g.get_parameter(letter)
        b = st.get_parameter(letter)
        if a is None or not close(mv, a, U):
            bad(f"last {letter} word on a move is {float(mv)} but "
                f"get_parameter({letter!r})={a!r}")
        if b is None or not close(mv, b, U):
            bad(f"last {letter} word on a move is {float(mv)} but "
                f"state.get_parameter({letter!r})={b!r}")


def check_output_invariant(m, start=0):
    """C02 (a): no unsafe code in the emitted program (m.events[start:])."""
    from vf.machine import HALT_CODES
    for code, tool_on, cool_on in m.events[start:]:
        if code in ("M3", "M4") and tool_on:
            raise Violation(f"{code} emitted while a tool was already running")
        if code in ("M7", "M8") and cool_on:
            raise Violation(f"{code} emitted while coolant was already on")
        if (code == "M6" or code in HALT_CODES) and (tool_on or cool_on):
            raise Violation(f"{code} emitted with tool_on={tool_on} coolant_on={cool_on}")
