"""Independent G-code block lexer (hand-written scanner; shares nothing with
gscrib or Printrun).

Grammar, given the configured line ending EOL and comment style:

    output  := (block EOL)*
    block   := ws? (word (ws+ word)*)? (ws* comment)? ws?
    word    := LETTER+ number
    number  := '-'? DIGIT+ ('.' DIGIT+)?          (no '+', exponent, nan, inf)
    comment := OPEN any-but-CLOSE-CR-LF* CLOSE    (bracket/quote styles)
             | OPEN any-but-CR-LF*                (prefix styles such as ';')

No raw CR or LF may occur inside a block.
"""

from fractions import Fraction

BRACKETS = {"(": ")", "[": "]", "{": "}", "<": ">", '"': '"', "'": "'",
            "/*": "*/"}


class LexError(Exception):
    pass


class Word:
    __slots__ = ("letter", "text")

    def __init__(self, letter, text):
        self.letter = letter
        self.text = text

    @property
    def value(self):
        return Fraction(self.text)

    def __repr__(self):
        return f"{self.letter}{self.text}"

    def __eq__(self, other):
        return (self.letter, self.text) == (other.letter, other.text)


def split_lines(data, eol):
    """Split the byte stream into blocks; every block must be EOL-terminated."""
    if isinstance(data, (bytes, bytearray)):
        try:
            text = bytes(data).decode("utf-8")
        except UnicodeDecodeError as e:
            raise LexError(f"output is not UTF-8: {e}")
    else:
        text = data
    if text == "":
        return []
    if not text.endswith(eol):
        raise LexError(f"output does not end with the line ending: {text[-20:]!r}")
    parts = text.split(eol)[:-1]
    for p in parts:
        if "\n" in p or "\r" in p:
            raise LexError(f"raw CR/LF inside a block: {p!r}")
    return parts


_LETTERS = "ABCDEFGHIJKLMNOPQRSTUVWXYZabcdefghijklmnopqrstuvwxyz"
_DIGITS = "0123456789"


def _scan_number(s, i):
    j = i
    if j < len(s) and s[j] == "-":
        j += 1
    k = j
    while k < len(s) and s[k] in _DIGITS:
        k += 1
    if k == j:
        raise LexError(f"number expected at {s[i:i+12]!r}")
    if k < len(s) and s[k] == ".":
        m = k + 1
        while m < len(s) and s[m] in _DIGITS:
            m += 1
        if m == k + 1:
            raise LexError(f"digits expected after '.' in {s[i:m+3]!r}")
        k = m
    return s[i:k], k


def parse_block(s, style=";", strict=True):
    """Return (words, comments).

    strict=True  : the C08 grammar (at most one comment, at the end).
    strict=False : comment *stripping* as a controller would do it: every
                   comment of the style is removed wherever it occurs, whatever
                   remains must scan as words; anything that does not scan is
                   returned as a ("?", text) word so that it still counts as
                   executable content.
    """
    open_s = style
    close_s = BRACKETS.get(style)
    words, comments = [], []
    i, n = 0, len(s)
    need_sep = False
    while i < n:
        c = s[i]
        if c in " \t":
            i += 1
            need_sep = False
            continue
        if s.startswith(open_s, i):
            start = i + len(open_s)
            if close_s is None:
                comments.append(s[start:])
                i = n
                break
            j = s.find(close_s, start)
            if j < 0:
                if strict:
                    raise LexError(f"unterminated comment: {s[i:i+30]!r}")
                comments.append(s[start:])
                i = n
                break
            comments.append(s[start:j])
            i = j + len(close_s)
            if strict:
                if s[i:].strip(" \t") != "":
                    raise LexError(f"text after the comment: {s[i:i+30]!r}")
                i = n
                break
            need_sep = False
            continue
        if c in _LETTERS:
            if need_sep:
                if strict:
                    raise LexError(f"words not separated at {s[max(0,i-8):i+8]!r}")
            j = i
            while j < n and s[j] in _LETTERS:
                j += 1
            try:
                num, k = _scan_number(s, j)
            except LexError:
                if strict:
                    raise
                k = j
                while k < n and s[k] not in " \t":
                    k += 1
                words.append(Word("?", s[i:k]))
                i = k
                need_sep = True
                continue
            words.append(Word(s[i:j].upper(), num))
            i = k
            need_sep = True
            continue
        if strict:
            raise LexError(f"unexpected character {c!r} at {s[max(0,i-8):i+8]!r}")
        k = i
        while k < n and s[k] not in " \t":
            k += 1
        words.append(Word("?", s[i:k]))
        i = k
        need_sep = True
    if strict and len(comments) > 1:
        raise LexError("more than one comment")
    return words, comments


def parse_output(data, eol, style=";", strict=True):
    return [parse_block(line, style, strict) for line in split_lines(data, eol)]
